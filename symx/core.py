"""symx core: path exploration by re-execution, SymBool / SymInt proxies (BV and Int back ends).

A proxy is NOT a subclass of int/bytes: every contact with C code that needs a machine value goes
through __index__/__hash__, which performs a complete solver-driven case split (never a silent pick).
"""
from __future__ import annotations

import os
import time

import z3

SENTINEL = "⟦sym⟧"


class PathAbort(BaseException):
    """Current path is infeasible (assumption unsatisfiable)."""


class Unsupported(BaseException):
    """Operation has no model -> the harness is inconclusive (never a pass)."""


class BoundsExceeded(BaseException):
    """A fork/path cap was hit -> inconclusive (plays the role of an unwinding assertion)."""


class SolverUnknown(BaseException):
    """Solver answered unknown / timed out -> inconclusive."""


# ------------------------------------------------------------------------------------------------
class Ctx:
    """Per-process exploration state."""

    def __init__(self):
        self.active = False
        self.logic = "bv"  # 'bv' | 'int'
        self.pc = []
        self.decisions = []
        self.pos = 0
        self.pending = []
        self.model = None  # a model known to satisfy the whole pc (or None)
        self.prefix_model = None  # model of the pc at the end of the replayed decision prefix
        self.prefix_len = -1
        self.uses_fp = False
        self.queries = 0
        self.solver_time = 0.0
        self.query_timeout_ms = 60_000
        self.max_split = 256
        self.inputs = {}
        self.nvars = 0
        self.tags = {}
        self.max_query_s = 0.0

    # -- solver ---------------------------------------------------------------------------------
    def _solver(self):
        if self.logic == "bv" and not self.uses_fp and not getattr(self, "uses_uf", False):
            s = z3.SolverFor("QF_BV")
        elif self.logic == "bv" and getattr(self, "uses_uf", False) and not self.uses_fp:
            s = z3.SolverFor("QF_UFBV")
        else:
            s = z3.Solver()
        s.set("timeout", self.query_timeout_ms)
        return s

    def check(self, *extra):
        """Return (result_str, model|None) for pc /\\ extra with a fresh non-incremental solver."""
        s = self._solver()
        if self.pc:
            s.add(*self.pc)
        if extra:
            s.add(*extra)
        t0 = time.time()
        r = s.check()
        dt = time.time() - t0
        self.queries += 1
        self.solver_time += dt
        if dt > self.max_query_s:
            self.max_query_s = dt
        if dt > 5 and os.environ.get("SYMX_DUMP_DIR"):
            with open(os.path.join(os.environ["SYMX_DUMP_DIR"], f"slow_{os.getpid()}_{self.queries}.smt2"), "w") as f:
                f.write(s.to_smt2())
        if r == z3.sat:
            return "sat", s.model()
        if r == z3.unsat:
            return "unsat", None
        raise SolverUnknown(s.reason_unknown())

    # -- path condition -------------------------------------------------------------------------
    def add(self, cond):
        """Add a constraint that is known to keep the pc satisfiable (fresh-variable ranges,
        functional-consistency axioms over fresh results)."""
        self.pc.append(cond)
        if self.model is not None:
            try:
                if not z3.is_true(self.model.eval(cond, model_completion=True)):
                    self.model = None
            except z3.Z3Exception:
                self.model = None

    def assume(self, cond):
        cond = _simp(cond)
        if z3.is_true(cond):
            return
        if z3.is_false(cond):
            raise PathAbort()
        if self.model is not None and z3.is_true(self.model.eval(cond, model_completion=True)):
            self.pc.append(cond)
            return
        r, m = self.check(cond)
        if r != "sat":
            raise PathAbort()
        self.pc.append(cond)
        self.model = m

    def ensure_model(self):
        if self.model is None:
            r, m = self.check()
            if r != "sat":
                raise PathAbort()
            self.model = m
        return self.model

    def branch(self, cond):
        """Concrete bool for a symbolic condition; forks when both sides are feasible."""
        cond = _simp(cond)
        if z3.is_true(cond):
            return True
        if z3.is_false(cond):
            return False
        if self.pos < len(self.decisions):
            d = self.decisions[self.pos][0]
            self.pos += 1
            self.pc.append(cond if d else z3.Not(cond))
            self.model = self.prefix_model if self.pos == self.prefix_len else None
            return d
        # new decision
        m = self.model
        mv = None
        if m is not None:
            v = m.eval(cond, model_completion=True)
            mv = True if z3.is_true(v) else False if z3.is_false(v) else None
        if mv is None:
            r, m1 = self.check(cond)
            if r == "sat":
                mv, m = True, m1
            else:
                mv = False  # pc is satisfiable (invariant) so the negation must be
                self.decisions.append((False, None))
                self.pos += 1
                self.pc.append(z3.Not(cond))
                return False
        # side mv is feasible with model m; test the other side
        other = z3.Not(cond) if mv else cond
        r, m2 = self.check(other)
        if r == "sat":
            if len(self.pending) > LIMITS["max_pending"]:
                raise BoundsExceeded("pending path cap")
            self.pending.append((self.decisions + [(not mv, None)], m2))
        self.decisions.append((mv, None))
        self.pos += 1
        self.pc.append(cond if mv else z3.Not(cond))
        self.model = m
        return mv

    def concretize(self, e, what="value"):
        """Complete case split over the feasible values of z3 term e (int or BV)."""
        s = _simp(e)
        v = _lit(s)
        if v is not None:
            return v
        n = 0
        while True:
            n += 1
            if n > self.max_split:
                raise BoundsExceeded(f"more than {self.max_split} feasible values for {what}")
            if self.pos < len(self.decisions):
                d, v = self.decisions[self.pos]
                self.pos += 1
                self.pc.append((e == v) if d else (e != v))
                self.model = self.prefix_model if self.pos == self.prefix_len else None
                if d:
                    return v
                continue
            m = self.ensure_model()
            v = _lit(m.eval(e, model_completion=True))
            r, m2 = self.check(e != v)
            if r == "sat":
                self.pending.append((self.decisions + [(False, v)], m2))
            self.decisions.append((True, v))
            self.pos += 1
            self.pc.append(e == v)
            return v

    # -- variables ------------------------------------------------------------------------------
    def fresh_name(self, base):
        self.nvars += 1
        return f"{base}!{self.nvars}"


LIMITS = {"max_pending": 200_000}
CTX = Ctx()


def _simp(e):
    try:
        return z3.simplify(e)
    except z3.Z3Exception:
        return e


def _lit(e):
    if z3.is_bv_value(e):
        return e.as_signed_long()
    if z3.is_int_value(e):
        return e.as_long()
    if z3.is_true(e):
        return 1
    if z3.is_false(e):
        return 0
    return None


# ------------------------------------------------------------------------------------------------
class SymBool:
    __slots__ = ("e",)

    def __init__(self, e):
        self.e = e

    def __bool__(self):
        return CTX.branch(self.e)

    def __invert__(self):  # not used by python 'not' but handy in harnesses
        return mkbool(z3.Not(self.e))

    def __and__(self, o):
        o = _tobool(o)
        return mkbool(z3.And(self.e, o))

    __rand__ = __and__

    def __or__(self, o):
        o = _tobool(o)
        return mkbool(z3.Or(self.e, o))

    __ror__ = __or__

    def __eq__(self, o):
        if isinstance(o, (bool, SymBool)):
            return mkbool(self.e == _tobool(o))
        return lift(self) == o

    def __ne__(self, o):
        if isinstance(o, (bool, SymBool)):
            return mkbool(self.e != _tobool(o))
        return lift(self) != o

    def __hash__(self):
        return hash(bool(self))

    def __index__(self):
        return int(bool(self))

    def __int__(self):
        return lift(self)

    def __repr__(self):
        return SENTINEL

    __str__ = __repr__

    def __format__(self, spec):
        return SENTINEL

    def __deepcopy__(self, memo):
        return self

    # arithmetic on bools (flags |= cond << n)
    def __lshift__(self, k):
        return lift(self) << k

    def __add__(self, o):
        return lift(self) + o

    __radd__ = __add__

    def __mul__(self, o):
        return lift(self) * o

    __rmul__ = __mul__


def _tobool(o):
    if isinstance(o, SymBool):
        return o.e
    if isinstance(o, bool):
        return z3.BoolVal(o)
    if isinstance(o, SymInt):
        return (o != 0).e if isinstance(o != 0, SymBool) else z3.BoolVal(bool(o != 0))
    return z3.BoolVal(bool(o))


def mkbool(e):
    """SymBool, or a plain bool when the term is a literal (constants stay concrete)."""
    e = _simp(e)
    if z3.is_true(e):
        return True
    if z3.is_false(e):
        return False
    return SymBool(e)


def And(*xs):
    """conjunction without simplifying the operands (they may be deep terms): only literal folding"""
    rest = []
    for x in xs:
        if isinstance(x, SymBool):
            rest.append(x.e)
        elif isinstance(x, SymInt):
            r = x != 0
            if r is False:
                return False
            if r is not True:
                rest.append(r.e)
        elif not x:
            return False
    if not rest:
        return True
    return SymBool(rest[0] if len(rest) == 1 else z3.And(*rest))


def Or(*xs):
    rest = []
    for x in xs:
        if isinstance(x, SymBool):
            rest.append(x.e)
        elif isinstance(x, SymInt):
            r = x != 0
            if r is True:
                return True
            if r is not False:
                rest.append(r.e)
        elif x:
            return True
    if not rest:
        return False
    return SymBool(rest[0] if len(rest) == 1 else z3.Or(*rest))


def Not(x):
    return mkbool(z3.Not(_tobool(x)))


def Implies(a, b):
    return mkbool(z3.Implies(_tobool(a), _tobool(b)))


def If(c, a, b):
    """Non-forking conditional on ints."""
    if isinstance(c, bool):
        return a if c else b
    a, b = lift(a), lift(b)
    a, b = _unify(a, b)
    lo = None if (a.lo is None or b.lo is None) else min(a.lo, b.lo)
    hi = None if (a.hi is None or b.hi is None) else max(a.hi, b.hi)
    return mkint(z3.If(c.e, a.e, b.e), lo, hi, a.w + b.w + 2)


# ------------------------------------------------------------------------------------------------
def _is_bv(e):
    return z3.is_bv(e)


def _sx(e, w):
    cw = e.size()
    if cw == w:
        return e
    if cw > w:
        return z3.Extract(w - 1, 0, e)
    return z3.SignExt(w - cw, e)


def _bits(lo, hi):
    return max(lo.bit_length(), hi.bit_length()) + 1


def lift(v):
    """Anything int-like -> SymInt in the context's back end (or None)."""
    if isinstance(v, SymInt):
        return v
    if isinstance(v, SymBool):
        if CTX.logic == "bv":
            return SymInt(z3.If(v.e, z3.BitVecVal(1, 2), z3.BitVecVal(0, 2)), 0, 1)
        return SymInt(z3.If(v.e, z3.IntVal(1), z3.IntVal(0)), 0, 1)
    if isinstance(v, bool):
        v = int(v)
    if isinstance(v, int):
        if CTX.logic == "bv":
            return SymInt(z3.BitVecVal(v, max(v.bit_length() + 1, 2)), v, v)
        return SymInt(z3.IntVal(v), v, v)
    if hasattr(v, "__index__") and not isinstance(v, (float, str, bytes)):
        try:
            return lift(v.__index__())
        except TypeError:
            return None
    return None


def _unify(a, b):
    """Bring two SymInts to the same sort (and width)."""
    ab, bb = _is_bv(a.e), _is_bv(b.e)
    if ab and bb:
        w = max(a.e.size(), b.e.size())
        return SymInt._raw(_sx(a.e, w), a.lo, a.hi, a.w), SymInt._raw(_sx(b.e, w), b.lo, b.hi, b.w)
    if not ab and not bb:
        return a, b
    # mixed: literals convert for free, otherwise BV -> Int (signed)
    if ab:
        return SymInt._raw(_bv2int(a), a.lo, a.hi, a.w), b
    return a, SymInt._raw(_bv2int(b), b.lo, b.hi, b.w)


def _bv2int(a):
    v = _lit(_simp(a.e))
    if v is not None:
        return z3.IntVal(v)
    return z3.BV2Int(a.e, is_signed=True)


SIMPLIFY_WEIGHT = 48


def mkint(e, lo=None, hi=None, w=1):
    """SymInt, or a plain int when the term is a literal.  w: rough term weight; only small
    terms are simplified eagerly (large ones - CRC chains - would make that quadratic)."""
    s = SymInt(e, lo, hi, w)
    if s.lo is not None and s.lo == s.hi:
        return s.lo
    v = _lit(s.e)
    if v is not None:
        return v
    if w <= SIMPLIFY_WEIGHT:
        se = _simp(s.e)
        v = _lit(se)
        if v is not None:
            return v
        s.e = se
    return s


class SymInt:
    """Exact python int.  BV back end: signed bit-vector wide enough that nothing wraps.
    Int back end: z3 Int.  lo/hi: conservative interval (None = unbounded, Int back end only)."""

    __slots__ = ("e", "lo", "hi", "w")

    def __init__(self, e, lo=None, hi=None, w=1):
        if _is_bv(e):
            sz = e.size()
            wlo, whi = -(1 << (sz - 1)), (1 << (sz - 1)) - 1
            lo = wlo if lo is None else max(lo, wlo)
            hi = whi if hi is None else min(hi, whi)
            need = _bits(lo, hi)
            if need < sz:
                e = z3.Extract(need - 1, 0, e)
        self.e = e
        self.lo = lo
        self.hi = hi
        self.w = w

    @staticmethod
    def _raw(e, lo, hi, w=1):
        s = SymInt.__new__(SymInt)
        s.e, s.lo, s.hi, s.w = e, lo, hi, w
        return s

    # -- helpers --------------------------------------------------------------------------------
    def _bin(self, o, fbv, fint, rng):
        o = lift(o)
        if o is None:
            return NotImplemented
        a, b = self, o
        if a.lo is None or a.hi is None or b.lo is None or b.hi is None:
            lo = hi = None
            try:
                lo, hi = rng(a.lo, a.hi, b.lo, b.hi)
            except TypeError:
                lo = hi = None
        else:
            lo, hi = rng(a.lo, a.hi, b.lo, b.hi)
        if _is_bv(a.e) and _is_bv(b.e):
            w = max(_bits(lo, hi), a.e.size(), b.e.size())
            return mkint(fbv(_sx(a.e, w), _sx(b.e, w)), lo, hi, a.w + b.w + 1)
        wt = a.w + b.w + 1
        a, b = _unify(a, b)
        if fint is None:
            raise Unsupported("bit operation on unbounded Int back end")
        return mkint(fint(a.e, b.e), lo, hi, wt)

    # -- arithmetic -----------------------------------------------------------------------------
    def __add__(self, o):
        return self._bin(o, lambda a, b: a + b, lambda a, b: a + b,
                         lambda al, ah, bl, bh: (al + bl, ah + bh))

    __radd__ = __add__

    def __sub__(self, o):
        return self._bin(o, lambda a, b: a - b, lambda a, b: a - b,
                         lambda al, ah, bl, bh: (al - bh, ah - bl))

    def __rsub__(self, o):
        o = lift(o)
        return NotImplemented if o is None else o - self

    def __neg__(self):
        return 0 - self

    def __pos__(self):
        return self

    def __abs__(self):
        return If(self < 0, -self, self)

    def __mul__(self, o):
        def rng(al, ah, bl, bh):
            c = [al * bl, al * bh, ah * bl, ah * bh]
            return min(c), max(c)
        return self._bin(o, lambda a, b: a * b, lambda a, b: a * b, rng)

    __rmul__ = __mul__

    def __and__(self, o):
        o = lift(o)
        if o is None:
            return NotImplemented
        if not _is_bv(self.e) or not _is_bv(o.e):
            return _int_and(self, o)

        def rng(al, ah, bl, bh):
            if al >= 0 and bl >= 0:
                return 0, min(ah, bh)
            if bl >= 0:
                return 0, bh
            if al >= 0:
                return 0, ah
            m = max(abs(al), abs(ah) + 1, abs(bl), abs(bh) + 1).bit_length()
            return -(1 << m), (1 << m)
        return self._bin(o, lambda a, b: a & b, None, rng)

    __rand__ = __and__

    def _orx(self, o, f):
        o = lift(o)
        if o is None:
            return NotImplemented
        if not _is_bv(self.e) or not _is_bv(o.e):
            return _int_orx(self, o, f)

        def rng(al, ah, bl, bh):
            m = max(abs(al), abs(ah), abs(bl), abs(bh)).bit_length()
            lo = 0 if (al >= 0 and bl >= 0) else -(1 << m)
            return lo, (1 << m) - 1
        return self._bin(o, f, None, rng)

    def __or__(self, o):
        return self._orx(o, lambda a, b: a | b)

    __ror__ = __or__

    def __xor__(self, o):
        return self._orx(o, lambda a, b: a ^ b)

    __rxor__ = __xor__

    def __invert__(self):
        return -1 - self

    def __lshift__(self, k):
        if isinstance(k, (SymInt, SymBool)):
            k = lift(k)
            if k.lo is not None and k.hi is not None and 0 <= k.lo and k.hi - k.lo <= 64:
                # non-forking: chain of Ifs over the possible shift counts
                r = self << k.hi
                for c in range(k.hi - 1, k.lo - 1, -1):
                    r = If(k == c, self << c, r)
                return r
            k = k.__index__()
        if k < 0:
            raise ValueError("negative shift count")
        if k == 0:
            return self
        if _is_bv(self.e):
            lo, hi = self.lo << k, self.hi << k
            w = _bits(lo, hi)
            return mkint(_sx(self.e, w) << k, lo, hi, self.w + 1)
        return self * (1 << k)

    def __rlshift__(self, o):
        k = self
        if k.lo is not None and k.hi is not None and 0 <= k.lo and k.hi - k.lo <= 600:
            r = o << k.hi
            for c in range(k.hi - 1, k.lo - 1, -1):
                r = If(k == c, o << c, r)
            return r
        return o << self.__index__()

    def __rshift__(self, k):
        if isinstance(k, (SymInt, SymBool)):
            k = lift(k)
            if k.lo is not None and k.hi is not None and 0 <= k.lo and k.hi - k.lo <= 64:
                r = self >> k.hi
                for c in range(k.hi - 1, k.lo - 1, -1):
                    r = If(k == c, self >> c, r)
                return r
            k = k.__index__()
        if k < 0:
            raise ValueError("negative shift count")
        if k == 0:
            return self
        if _is_bv(self.e):
            if k >= self.e.size():
                return If(self < 0, -1, 0)
            return mkint(self.e >> k, self.lo >> k, self.hi >> k, self.w + 1)
        return self // (1 << k)

    def __rrshift__(self, o):
        k = self
        if k.lo is not None and k.hi is not None and 0 <= k.lo and k.hi - k.lo <= 600:
            r = o >> k.hi
            for c in range(k.hi - 1, k.lo - 1, -1):
                r = If(k == c, o >> c, r)
            return r
        return o >> self.__index__()

    def _divmod(self, o):
        o = lift(o)
        if o is None:
            return NotImplemented
        if o.lo is not None and o.hi is not None and o.lo <= 0 <= o.hi:
            if bool(o == 0):
                raise ZeroDivisionError("integer division or modulo by zero")
            # path condition now excludes 0; split on sign if still mixed
            if o.lo < 0 < o.hi:
                if bool(o > 0):
                    o = SymInt._raw(o.e, 1, o.hi)
                else:
                    o = SymInt._raw(o.e, o.lo, -1)
            elif o.lo == 0:
                o = SymInt._raw(o.e, 1, o.hi)
            else:
                o = SymInt._raw(o.e, o.lo, -1)
        elif o.lo is None or o.hi is None:
            if bool(o == 0):
                raise ZeroDivisionError("integer division or modulo by zero")
            if bool(o > 0):
                o = SymInt._raw(o.e, 1, o.hi)
            else:
                o = SymInt._raw(o.e, o.lo, -1)
        if o.hi is not None and o.hi < 0:
            q, r = (-self)._divmod(-o)
            return q, -r
        # divisor strictly positive from here on
        a, b = self, o
        if _is_bv(a.e) and _is_bv(b.e):
            if b.lo == b.hi and (b.lo & (b.lo - 1)) == 0:
                k = b.lo.bit_length() - 1
                return a >> k, a & (b.lo - 1)
            w = max(a.e.size(), b.e.size()) + 1
            ae, be = _sx(a.e, w), _sx(b.e, w)
            q0 = ae / be  # signed, truncating
            r0 = z3.SRem(ae, be)
            adj = z3.And(r0 != 0, r0 < 0)
            q = z3.If(adj, q0 - 1, q0)
            r = z3.If(adj, r0 + be, r0)
            qlo = min(a.lo // b.lo, a.lo // b.hi)
            qhi = max(a.hi // b.lo, a.hi // b.hi)
            return mkint(q, qlo, qhi, a.w + b.w + 4), mkint(r, 0, b.hi - 1, a.w + b.w + 4)
        a, b = _unify(a, b)
        qlo = qhi = None
        if a.lo is not None and b.hi is not None:
            qlo = min(a.lo // b.lo, a.lo // b.hi)
        if a.hi is not None and b.hi is not None:
            qhi = max(a.hi // b.lo, a.hi // b.hi)
        if a.lo is not None and a.lo >= 0:
            qlo = 0 if qlo is None else max(qlo, 0)
            if qhi is None and a.hi is not None:
                qhi = a.hi
        return (mkint(a.e / b.e, qlo, qhi, a.w + b.w + 1),
                mkint(a.e % b.e, 0, None if b.hi is None else b.hi - 1, a.w + b.w + 1))

    def __floordiv__(self, o):
        r = self._divmod(o)
        return r if r is NotImplemented else r[0]

    def __rfloordiv__(self, o):
        return lift(o) // self

    def __mod__(self, o):
        r = self._divmod(o)
        return r if r is NotImplemented else r[1]

    def __rmod__(self, o):
        if isinstance(o, str):
            return o % (SENTINEL,)
        return lift(o) % self

    def __divmod__(self, o):
        return self._divmod(o)

    def __rdivmod__(self, o):
        return lift(o)._divmod(self)

    def __truediv__(self, o):
        from .frac import true_div
        return true_div(self, o)

    def __rtruediv__(self, o):
        from .frac import true_div
        return true_div(o, self)

    def __pow__(self, k, mod=None):
        if isinstance(k, int) and mod is None and 0 <= k <= 8:
            r = 1
            for _ in range(k):
                r = r * self
            return r
        raise Unsupported("symbolic exponentiation")

    def __rpow__(self, b):
        if b == 2:
            return 1 << self
        raise Unsupported("symbolic exponent")

    # -- comparisons ----------------------------------------------------------------------------
    def _cmp(self, o, f, fi, same=None):
        o = lift(o)
        if o is None:
            return NotImplemented
        a, b = self, o
        r = fi(a.lo, a.hi, b.lo, b.hi)
        if r is not None:
            return r
        if a.e is b.e or (a.e.sort() == b.e.sort() and z3.eq(a.e, b.e)):
            if same is not None:
                return same   # identical terms
        wt = a.w + b.w
        a, b = _unify(a, b)
        e = f(a.e, b.e)
        if wt > 4 * SIMPLIFY_WEIGHT:
            return True if z3.is_true(e) else False if z3.is_false(e) else SymBool(e)
        return mkbool(e)

    def __eq__(self, o):
        if o is None or isinstance(o, (str, bytes, float)):
            return False
        return self._cmp(o, lambda a, b: a == b, _i_eq, True)

    def __ne__(self, o):
        if o is None or isinstance(o, (str, bytes, float)):
            return True
        return self._cmp(o, lambda a, b: a != b, _i_ne, False)

    def __lt__(self, o):
        return self._cmp(o, lambda a, b: a < b, _i_lt, False)

    def __le__(self, o):
        return self._cmp(o, lambda a, b: a <= b, _i_le, True)

    def __gt__(self, o):
        return self._cmp(o, lambda a, b: a > b, lambda al, ah, bl, bh: _i_lt(bl, bh, al, ah), False)

    def __ge__(self, o):
        return self._cmp(o, lambda a, b: a >= b, lambda al, ah, bl, bh: _i_le(bl, bh, al, ah), True)

    def __bool__(self):
        return bool(self != 0)

    # -- contact with C code --------------------------------------------------------------------
    def __index__(self):
        return CTX.concretize(self.e, "integer reaching C code")

    def __hash__(self):
        return hash(self.__index__())

    def __int__(self):
        return self  # int() is shimmed; direct C-level int(x) would reject a non-int return

    def __float__(self):
        raise Unsupported("float() of symbolic integer")

    def __round__(self, n=None):
        return self

    def __trunc__(self):
        return self

    def __floor__(self):
        return self

    def __ceil__(self):
        return self

    def __format__(self, spec):
        return SENTINEL

    def __repr__(self):
        return SENTINEL

    __str__ = __repr__

    def __deepcopy__(self, memo):
        return self

    def __copy__(self):
        return self

    def __reduce__(self):
        raise Unsupported("pickling a symbolic integer")

    @property
    def real(self):
        return self

    @property
    def imag(self):
        return 0

    def conjugate(self):
        return self

    def bit_length(self):
        a = abs(self)
        if not isinstance(a, SymInt):
            return a.bit_length()
        if a.hi is None:
            raise Unsupported("bit_length of unbounded integer")
        n = a.hi.bit_length()
        lo_bits = a.lo.bit_length() if a.lo is not None and a.lo > 0 else 0
        if lo_bits == n:
            return n
        if _is_bv(a.e):
            # position of the highest set bit: ascending chain so that the highest one wins (1-bit tests only)
            w = max(n.bit_length() + 1, 2)
            r = z3.BitVecVal(lo_bits, w)
            for i in range(max(lo_bits - 1, 0), n):
                r = z3.If(z3.Extract(i, i, a.e) == 1, z3.BitVecVal(i + 1, w), r)
            return mkint(r, lo_bits, n, a.w + n)
        acc = 0
        for i in range(n):
            acc = acc + If(a >= (1 << i), 1, 0)
        return acc

    @staticmethod
    def from_bytes(data, byteorder="big", *, signed=False):
        from .sbytes import from_bytes
        return from_bytes(data, byteorder, signed=signed)

    def to_bytes(self, length=1, byteorder="big", *, signed=False):
        from .sbytes import SymBytes
        if isinstance(length, SymInt):
            length = length.__index__()
        byteorder = getattr(byteorder, "value", byteorder)
        if byteorder not in ("big", "little"):
            raise ValueError("byteorder must be either 'little' or 'big'")
        if signed:
            lo, hi = -(1 << (8 * length - 1)) if length else 0, (1 << (8 * length - 1)) - 1 if length else 0
        else:
            lo, hi = 0, (1 << (8 * length)) - 1
        if not signed and bool(self < 0):
            raise OverflowError("can't convert negative int to unsigned")
        if bool(self < lo) or bool(self > hi):
            raise OverflowError("int too big to convert")
        v = self
        if signed:
            v = self & ((1 << (8 * length)) - 1)
        if isinstance(v, SymInt) and _is_bv(v.e) and length:
            # bytes as direct slices of the value's term (cheap terms; from_bytes recognises and re-joins them)
            e = v.e
            if e.size() < 8 * length:
                e = z3.ZeroExt(8 * length - e.size(), e)
            bs = [mkint(z3.ZeroExt(1, z3.Extract(8 * i + 7, 8 * i, e)), 0, 255, v.w + 1) for i in range(length)]
        else:
            bs = [(v >> (8 * i)) & 0xFF for i in range(length)]
        if byteorder == "big":
            bs.reverse()
        return SymBytes(bs)


def _i_eq(al, ah, bl, bh):
    if al is not None and bh is not None and al > bh:
        return False
    if ah is not None and bl is not None and ah < bl:
        return False
    return None


def _i_ne(al, ah, bl, bh):
    r = _i_eq(al, ah, bl, bh)
    return None if r is None else True


def _i_lt(al, ah, bl, bh):
    if ah is not None and bl is not None and ah < bl:
        return True
    if al is not None and bh is not None and al >= bh:
        return False
    return None


def _i_le(al, ah, bl, bh):
    if ah is not None and bl is not None and ah <= bl:
        return True
    if al is not None and bh is not None and al > bh:
        return False
    return None


def _pow2mask(v):
    """k if v == 2**k - 1 (k>=0) else None."""
    if v >= 0 and (v & (v + 1)) == 0:
        return v.bit_length()
    return None


def _int_and(a, b):
    """& on the Int back end: only constant masks of the form 2^k-1, ~(2^k-1) and contiguous
    masks ((2^k-1) << s) on non-negative operands."""
    a, b = lift(a), lift(b)
    if isinstance(a, SymInt) and a.lo is not None and a.lo == a.hi:
        a, b = b, a
    if not (b.lo is not None and b.lo == b.hi):
        raise Unsupported("symbolic & symbolic on Int back end")
    m = b.lo
    if m == 0:
        return 0
    if m == -1:
        return a
    k = _pow2mask(m)
    if k is not None:
        return a % (1 << k)
    k = _pow2mask(~m)
    if k is not None:
        return a - a % (1 << k)
    if m > 0:
        s = (m & -m).bit_length() - 1
        k = _pow2mask(m >> s)
        if k is not None:
            return ((a >> s) % (1 << k)) << s
    raise Unsupported(f"mask {m:#x} on Int back end")


def _int_orx(a, b, f):
    raise Unsupported("| or ^ on Int back end")


# ------------------------------------------------------------------------------------------------
def var_int(name, lo, hi, logic=None):
    """Fresh symbolic integer in [lo, hi] (hi/lo may be None with the Int back end)."""
    logic = logic or CTX.logic
    nm = CTX.fresh_name(name) if name in CTX.tags else name
    CTX.tags[name] = True
    if logic == "bv":
        w = _bits(lo, hi)
        if lo == 0 and (hi & (hi + 1)) == 0 and hi > 0:
            return SymInt._raw(z3.ZeroExt(1, z3.BitVec(nm, w - 1)), lo, hi)
        e = z3.BitVec(nm, w)
        if lo != -(1 << (w - 1)):
            CTX.add(e >= lo)
        if hi != (1 << (w - 1)) - 1:
            CTX.add(e <= hi)
        return SymInt._raw(e, lo, hi)
    e = z3.Int(nm)
    if lo is not None:
        CTX.add(e >= lo)
    if hi is not None:
        CTX.add(e <= hi)
    return SymInt._raw(e, lo, hi)


def is_sym(x):
    return isinstance(x, (SymInt, SymBool))

"""Restricted symbolic strings: a string of CONCRETE length whose characters are symbolic code points.

Enough of the str API for the number-grammar kernels (strip / lower / comparison / slicing), a backtracking regular
expression matcher that mirrors CPython's priority order (leftmost, greedy, alternatives in order) over the parse tree that
CPython's own regex parser produces for the pattern the real code passes at run time, and a model of int(str, base).
Every character test is a SymBool decided by the engine, i.e. a fork - so along one path all tests have definite outcomes
and the matcher returns exactly the match CPython would return for every string on that path."""
import re as _re

from . import core
from .core import SymInt, SymBool, Unsupported, lift

try:
    import re._parser as _sre_parse
    import re._constants as _sre_c
except ImportError:                                   # pragma: no cover
    import sre_parse as _sre_parse
    import sre_constants as _sre_c

_ri = isinstance
WS = (0x20, 0x09, 0x0A, 0x0B, 0x0C, 0x0D, 0x1C, 0x1D, 0x1E, 0x1F, 0x85, 0xA0)


def _t(b):
    """truth of a (possibly symbolic) test: forks"""
    return bool(b)


class SymStr:
    __slots__ = ("items",)

    def __init__(self, items):
        self.items = list(items)

    @staticmethod
    def make(items):
        items = list(items)
        if all(_ri(x, int) for x in items):
            return "".join(chr(x) for x in items)
        return SymStr(items)

    # ---- basics ---------------------------------------------------------------------------------------------------
    def __len__(self):
        return len(self.items)

    def __bool__(self):
        return len(self.items) > 0

    def __iter__(self):
        return iter(SymStr.make([x]) for x in self.items)

    def __getitem__(self, i):
        if _ri(i, slice):
            return SymStr.make(self.items[i])
        return SymStr.make([self.items[i]])

    def _cmp_items(self, o):
        if _ri(o, SymStr):
            return o.items
        if _ri(o, str):
            return [ord(ch) for ch in o]
        return None

    def eq_term(self, o):
        it = self._cmp_items(o)
        if it is None or len(it) != len(self.items):
            return False
        return core.And(*[a == b for a, b in zip(self.items, it)])

    def __eq__(self, o):
        r = self.eq_term(o)
        return r if _ri(r, SymBool) else bool(r)

    def __ne__(self, o):
        r = self.eq_term(o)
        return core.Not(r) if _ri(r, SymBool) else not r

    def __hash__(self):
        return hash(self.concrete())

    def concrete(self):
        return "".join(chr(x.__index__() if _ri(x, SymInt) else x) for x in self.items)

    def __str__(self):
        return "⟦symstr⟧"

    __repr__ = __str__

    def __format__(self, spec):
        return "⟦symstr⟧"

    def __add__(self, o):
        it = self._cmp_items(o)
        if it is None:
            return NotImplemented
        return SymStr.make(self.items + it)

    def __radd__(self, o):
        it = self._cmp_items(o)
        if it is None:
            return NotImplemented
        return SymStr.make(it + self.items)

    # ---- str API -----------------------------------------------------------------------------------------------
    def strip(self, chars=None):
        if chars is not None:
            raise Unsupported("strip(chars) on a symbolic string")
        a, b = 0, len(self.items)
        while a < b and _t(_is_space(self.items[a])):
            a += 1
        while b > a and _t(_is_space(self.items[b - 1])):
            b -= 1
        return SymStr.make(self.items[a:b])

    def lower(self):
        out = []
        for c in self.items:
            if _ri(c, SymInt):
                if _t(c >= 128):
                    raise Unsupported("lower() of a non-ASCII symbolic character")
                out.append(core.If(core.And(c >= 65, c <= 90), c + 32, c))
            else:
                out.append(ord(chr(c).lower()) if len(chr(c).lower()) == 1 else c)
        return SymStr.make(out)

    def upper(self):
        out = []
        for c in self.items:
            if _ri(c, SymInt):
                if _t(c >= 128):
                    raise Unsupported("upper() of a non-ASCII symbolic character")
                out.append(core.If(core.And(c >= 97, c <= 122), c - 32, c))
            else:
                out.append(ord(chr(c).upper()) if len(chr(c).upper()) == 1 else c)
        return SymStr.make(out)

    def startswith(self, p):
        if _ri(p, tuple):
            return any(self.startswith(x) for x in p)
        it = self._cmp_items(p)
        if len(it) > len(self.items):
            return False
        return _t(core.And(*[a == b for a, b in zip(self.items, it)]))

    def endswith(self, p):
        if _ri(p, tuple):
            return any(self.endswith(x) for x in p)
        it = self._cmp_items(p)
        if len(it) > len(self.items):
            return False
        return _t(core.And(*[a == b for a, b in zip(self.items[len(self.items) - len(it):], it)])) if it else True

    def find(self, sub):
        it = self._cmp_items(sub)
        for i in range(0, len(self.items) - len(it) + 1):
            if _t(core.And(*[a == b for a, b in zip(self.items[i:], it)])):
                return i
        return -1

    def __contains__(self, sub):
        return self.find(sub) >= 0

    def replace(self, old, new):
        if len(old) != 1:
            raise Unsupported("replace() of a longer pattern on a symbolic string")
        out = []
        for c in self.items:
            if _t(c == ord(old)):
                out.extend(ord(x) for x in new)
            else:
                out.append(c)
        return SymStr.make(out)

    def encode(self, *a, **k):
        raise Unsupported("encode() of a symbolic string")


def _is_space(c):
    if _ri(c, int):
        return chr(c).isspace()
    return core.Or(*[c == w for w in WS])


# ---------------------------------------------------------------------------------------------------- regex matcher
class SymMatch:
    def __init__(self, s, groups, names, end, ngroups=0):
        self._s, self._g, self._names, self._end, self._n = s, groups, names, end, ngroups

    def _span(self, g):
        if _ri(g, str):
            g = self._names[g]
        if g == 0:
            return (0, self._end)
        return self._g.get(g)

    def group(self, *gs):
        if not gs:
            gs = (0,)
        out = []
        for g in gs:
            sp = self._span(g)
            out.append(None if sp is None else self._s[sp[0]: sp[1]])
        return out[0] if len(out) == 1 else tuple(out)

    def groups(self, default=None):
        n = self._n
        return tuple(self.group(i) if self._span(i) is not None else default for i in range(1, n + 1))

    def groupdict(self, default=None):
        return {k: (self.group(k) if self._span(k) is not None else default) for k in self._names}

    def span(self, g=0):
        return self._span(g) or (-1, -1)

    def start(self, g=0):
        return self.span(g)[0]

    def end(self, g=0):
        return self.span(g)[1]

    def __bool__(self):
        return True


def _in_class(c, av, ignorecase=False):
    """test one character against an IN item list -> SymBool / bool"""
    neg = False
    tests = []
    for op, arg in av:
        if op is _sre_c.NEGATE:
            neg = True
        elif op is _sre_c.LITERAL:
            tests.append(c == arg)
        elif op is _sre_c.RANGE:
            tests.append(core.And(c >= arg[0], c <= arg[1]))
        elif op is _sre_c.CATEGORY:
            tests.append(_category(c, arg))
        else:
            raise Unsupported(f"regex class item {op}")
    r = core.Or(*tests) if tests else False
    return core.Not(r) if neg else r


def _category(c, cat):
    d = core.And(c >= 48, c <= 57)
    w = core.Or(d, core.And(c >= 65, c <= 90), core.And(c >= 97, c <= 122), c == 95)
    s = _is_space(c) if not _ri(c, int) else chr(c).isspace()
    table = {_sre_c.CATEGORY_DIGIT: d, _sre_c.CATEGORY_NOT_DIGIT: core.Not(d), _sre_c.CATEGORY_WORD: w,
             _sre_c.CATEGORY_NOT_WORD: core.Not(w), _sre_c.CATEGORY_SPACE: s, _sre_c.CATEGORY_NOT_SPACE: core.Not(s)}
    if cat not in table:
        raise Unsupported(f"regex category {cat}")
    if not _ri(c, int) and _t(c >= 128):
        raise Unsupported("regex category test of a non-ASCII symbolic character")
    return table[cat]


def sym_match(pattern, string, flags=0, full=False):
    """re.match / re.fullmatch over a SymStr (anchored at position 0), CPython priority order."""
    if flags & ~(_re.IGNORECASE | _re.ASCII | _re.UNICODE):
        raise Unsupported("regex flags on a symbolic string")
    tree = _sre_parse.parse(pattern, flags)
    names = dict(tree.state.groupdict)
    chars = string.items
    n = len(chars)

    def seq(nodes, i, pos, groups, k):
        if i == len(nodes):
            return k(pos, groups)
        op, av = nodes[i]

        def nxt(p, g):
            return seq(nodes, i + 1, p, g, k)
        return node(op, av, pos, groups, nxt)

    def node(op, av, pos, groups, k):
        if op is _sre_c.LITERAL:
            if pos < n and _t(chars[pos] == av):
                return k(pos + 1, groups)
            return None
        if op is _sre_c.NOT_LITERAL:
            if pos < n and _t(chars[pos] != av):
                return k(pos + 1, groups)
            return None
        if op is _sre_c.ANY:
            if pos < n and _t(chars[pos] != 10):
                return k(pos + 1, groups)
            return None
        if op is _sre_c.IN:
            if pos < n and _t(_in_class(chars[pos], av)):
                return k(pos + 1, groups)
            return None
        if op is _sre_c.AT:
            if av is _sre_c.AT_END:
                ok = pos == n or (pos == n - 1 and _t(chars[pos] == 10))
            elif av is _sre_c.AT_END_STRING:
                ok = pos == n
            elif av in (_sre_c.AT_BEGINNING, _sre_c.AT_BEGINNING_STRING):
                ok = pos == 0
            else:
                raise Unsupported(f"regex anchor {av}")
            return k(pos, groups) if ok else None
        if op is _sre_c.SUBPATTERN:
            gid, add_flags, del_flags, sub = av
            if add_flags or del_flags:
                raise Unsupported("inline regex flags")
            start = pos

            def close(p, g):
                g2 = dict(g)
                if gid is not None:
                    g2[gid] = (start, p)
                return k(p, g2)
            return seq(list(sub), 0, pos, groups, close)
        if op is _sre_c.BRANCH:
            for alt in av[1]:
                r = seq(list(alt), 0, pos, groups, k)
                if r is not None:
                    return r
            return None
        if op in (_sre_c.MAX_REPEAT, _sre_c.MIN_REPEAT):
            lo, hi, sub = av
            sub = list(sub)
            greedy = op is _sre_c.MAX_REPEAT
            hi = n + 1 if hi is _sre_c.MAXREPEAT else hi

            def rep(count, p, g):
                def more():
                    if count >= hi:
                        return None

                    def after(p2, g2):
                        if p2 == p:
                            # an iteration that consumed nothing: CPython's group bookkeeping for this corner is not
                            # mirrored here (differential test: `(a*)*b`), so the result is declared unknown
                            raise Unsupported("empty iteration inside a regex repeat")
                        return rep(count + 1, p2, g2)
                    return seq(sub, 0, p, g, after)

                def stop():
                    return k(p, g) if count >= lo else None
                first, second = (more, stop) if greedy else (stop, more)
                r = first()
                return r if r is not None else second()
            return rep(0, pos, groups)
        raise Unsupported(f"regex construct {op}")

    def done(pos, groups):
        if full and pos != n:
            return None
        return SymMatch(string, groups, names, pos, tree.state.groups - 1)
    return seq(list(tree), 0, 0, {}, done)


# ---------------------------------------------------------------------------------------------------- int(str, base)
def _digit_val(c):
    """(is an alphanumeric digit, its value) for one character"""
    isd = core.And(c >= 48, c <= 57)
    isl = core.And(c >= 97, c <= 122)
    isu = core.And(c >= 65, c <= 90)
    val = core.If(isd, c - 48, core.If(isl, c - 87, c - 55))
    return core.Or(isd, isl, isu), val


def sym_int(s, base=10):
    """Model of CPython's int(str, base) for base in 2..36 (and not 0) on a SymStr: optional surrounding whitespace and
    sign, optional base prefix when it matches the base, digits with single underscores between digits (one is also
    allowed directly after the prefix)."""
    if _ri(base, SymInt):
        base = base.__index__()
    if base == 0 or not 2 <= base <= 36:
        raise Unsupported("int() with base 0 on a symbolic string")
    s = s.strip() if _ri(s, SymStr) else s
    if _ri(s, str):
        return int(s, base)
    it = list(s.items)
    if not it:
        raise ValueError("invalid literal for int()")
    neg = False
    if _t(core.Or(it[0] == 43, it[0] == 45)):
        neg = _t(it[0] == 45)
        it = it[1:]
    pre = {2: (98, 66), 8: (111, 79), 16: (120, 88)}.get(base)
    after_prefix = False
    if pre and len(it) >= 2 and _t(core.And(it[0] == 48, core.Or(it[1] == pre[0], it[1] == pre[1]))):
        it = it[2:]
        after_prefix = True
    if not it:
        raise ValueError("invalid literal for int()")
    value = 0
    prev_us = not after_prefix            # an underscore may not come first, except directly after the prefix
    seen_digit = False
    for c in it:
        if _t(c == 95):
            if prev_us:
                raise ValueError("invalid literal for int()")
            prev_us = True
            continue
        isd, val = _digit_val(c) if not _ri(c, int) else ((chr(c).isalnum() and c < 128), (int(chr(c), 36) if chr(c).isalnum() and c < 128 else 0))
        if not _t(isd) or not _t(val < base):
            if not _ri(c, int) and _t(c >= 128):
                raise Unsupported("int() of a non-ASCII symbolic character")
            raise ValueError("invalid literal for int()")
        value = value * base + val
        prev_us = False
        seen_digit = True
    if prev_us or not seen_digit:
        raise ValueError("invalid literal for int()")
    return -value if neg else value


class ReProxy:
    """stands for the `re` module inside a module under test: match / fullmatch on SymStr go to the symbolic matcher"""

    def __init__(self, real=_re):
        self._real = real

    def __getattr__(self, name):
        return getattr(self._real, name)

    def match(self, pattern, string, flags=0):
        if _ri(string, SymStr):
            return sym_match(pattern if _ri(pattern, str) else pattern.pattern, string, flags)
        return self._real.match(pattern, string, flags)

    def fullmatch(self, pattern, string, flags=0):
        if _ri(string, SymStr):
            return sym_match(pattern if _ri(pattern, str) else pattern.pattern, string, flags, full=True)
        return self._real.fullmatch(pattern, string, flags)

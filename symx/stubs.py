"""Crypto stubs with explicit algebraic contracts (DESIGN 2.4).

* UF(name): deterministic function of its (byte-string) arguments - Ackermann-style functional
  consistency between every two applications with equal-length arguments; nothing else.
* Invertible cipher E/D built on UF tables: D(k, iv, E(k, iv, m)) = m and E(k, iv, D(k, iv, c)) = c.
* CTR mode: ct = pt XOR KS(key, counter_block) per 16-byte block (position arithmetic exact).
All tables live in CTX.path_state and are reset at the start of every path.  Every call is recorded
in CALLS (argument capture) for obligations of the form "the bytes handed to the signer are ...".
"""
from __future__ import annotations

import z3

from .core import CTX, SymBool, SymInt, Unsupported, lift, var_int, And
from .sbytes import SymBytes, items_of


def _state():
    st = getattr(CTX, "path_state", None)
    if st is None:
        st = CTX.path_state = {}
    return st


def calls(name=None):
    lst = _state().setdefault("calls", [])
    return lst if name is None else [c for c in lst if c["fn"] == name]


def record(fn, **kw):
    _state().setdefault("calls", []).append(dict(fn=fn, **kw))


def _same(a, b):
    """structural equality of two item lists (no solver)."""
    if len(a) != len(b):
        return False
    for x, y in zip(a, b):
        xs, ys = isinstance(x, (SymInt, SymBool)), isinstance(y, (SymInt, SymBool))
        if xs != ys:
            return False
        if xs:
            if not z3.eq(lift(x).e, lift(y).e):
                cx, cy = _canon(x), _canon(y)
                if isinstance(cx, SymInt) and isinstance(cy, SymInt):
                    if not z3.eq(cx.e, cy.e):
                        return False
                elif not (not isinstance(cx, SymInt) and not isinstance(cy, SymInt) and cx == cy):
                    return False
        elif x != y:
            return False
    return True


def _surely_differ(a, b):
    for x, y in zip(a, b):
        if not isinstance(x, (SymInt, SymBool)) and not isinstance(y, (SymInt, SymBool)) and x != y:
            return True
    return False


def _eq_term(a, b):
    return SymBytes(a).eq_term(b)


def _canon(x):
    """simplified form of a (small) symbolic item so that equal values built along different routes
    (e.g. (n+42)+1+4 and n+47) are recognised structurally."""
    if isinstance(x, SymInt) and x.w <= 256:
        e = z3.simplify(x.e)
        if z3.is_bv_value(e):
            return e.as_signed_long()
        if z3.is_int_value(e):
            return e.as_long()
        return SymInt._raw(e, x.lo, x.hi, x.w)
    return x


def flat(args):
    """Flatten a list of byte strings / ints into (shape, items)."""
    shape, items = [], []
    for a in args:
        if isinstance(a, (int, SymInt)) and not isinstance(a, bool):
            shape.append("i")
            items.append(a)
        else:
            it = items_of(a)
            shape.append(len(it))
            items.extend(it)
    return tuple(shape), [_canon(x) for x in items]


def uf(name, args, nout):
    """Apply uninterpreted function `name` to args -> list of nout byte items."""
    shape, items = flat(args)
    tab = _state().setdefault(("uf", name), [])
    for sh, it, out in tab:
        if sh == shape and _same(it, items):
            return list(out)
    if not any(isinstance(x, (SymInt, SymBool)) for x in items):
        # fully concrete argument: still an opaque value, but give it a stable name
        pass
    out = [var_int(f"{name}#{len(tab)}[{i}]", 0, 255) for i in range(nout)]
    for sh, it, prev in tab:
        if sh == shape and not _surely_differ(it, items):
            eq = _eq_term(it, items)
            if eq is False:
                continue
            same_out = _eq_term(prev, out)
            if eq is True:
                CTX.add(same_out.e if isinstance(same_out, SymBool) else z3.BoolVal(bool(same_out)))
            else:
                CTX.add(z3.Implies(eq.e, same_out.e if isinstance(same_out, SymBool) else z3.BoolVal(bool(same_out))))
    tab.append((shape, items, out))
    return list(out)


def enc(name, key, iv, data):
    """Ideal invertible cipher, encrypt direction: returns ciphertext items (same length)."""
    k, v, d = [_canon(x) for x in items_of(key)], [_canon(x) for x in items_of(iv)], [_canon(x) for x in items_of(data)]
    tab = _state().setdefault(("cipher", name), [])
    for ek, ev, ep, ec in tab:
        if _same(ek, k) and _same(ev, v) and _same(ep, d):
            return list(ec)
    c = [var_int(f"{name}.ct#{len(tab)}[{i}]", 0, 255) for i in range(len(d))]
    _link(tab, k, v, d, c)
    tab.append((k, v, d, c))
    return list(c)


def dec(name, key, iv, data):
    k, v, c = [_canon(x) for x in items_of(key)], [_canon(x) for x in items_of(iv)], [_canon(x) for x in items_of(data)]
    tab = _state().setdefault(("cipher", name), [])
    for ek, ev, ep, ec in tab:
        if _same(ek, k) and _same(ev, v) and _same(ec, c):
            return list(ep)
    p = [var_int(f"{name}.pt#{len(tab)}[{i}]", 0, 255) for i in range(len(c))]
    _link(tab, k, v, p, c)
    tab.append((k, v, p, c))
    return list(p)


def _link(tab, k, v, p, c):
    """bijection axioms against earlier entries: same (key, iv) => (pt equal <=> ct equal)."""
    for ek, ev, ep, ec in tab:
        if len(ek) != len(k) or len(ev) != len(v) or len(ep) != len(p):
            continue
        if _surely_differ(ek, k) or _surely_differ(ev, v):
            continue
        same_kv = And(_eq_term(ek, k), _eq_term(ev, v))
        if same_kv is False:
            continue
        pe, ce = _eq_term(ep, p), _eq_term(ec, c)
        pe = pe.e if isinstance(pe, SymBool) else z3.BoolVal(bool(pe))
        ce = ce.e if isinstance(ce, SymBool) else z3.BoolVal(bool(ce))
        body = pe == ce
        if same_kv is True:
            CTX.add(body)
        else:
            CTX.add(z3.Implies(same_kv.e, body))


def ks_native(name, key, counter_block):
    """AES keystream block as a NATIVE z3 uninterpreted function (key128/256, block128) -> 128 bits: congruence is
    handled by the solver, no pairwise axioms (for harnesses with many blocks)."""
    from .sbytes import from_bytes
    k = items_of(key)
    cb = items_of(counter_block)
    kbits, cbits = 8 * len(k), 8 * len(cb)
    f = z3.Function(f"{name}{kbits}", z3.BitVecSort(kbits), z3.BitVecSort(cbits), z3.BitVecSort(128))
    CTX.uses_uf = True

    def bv(items, bits):
        v = from_bytes(items, "big")
        if isinstance(v, int):
            return z3.BitVecVal(v, bits)
        e = v.e
        return z3.Extract(bits - 1, 0, e) if e.size() >= bits else z3.ZeroExt(bits - e.size(), e)
    out = f(bv(k, kbits), bv(cb, cbits))
    record("ks", key=k, block=cb)
    return [SymInt._raw(z3.ZeroExt(1, z3.Extract(127 - 8 * i, 120 - 8 * i, out)), 0, 255, 4) for i in range(16)]


NATIVE_KS = [False]
XTS_BLOCKWISE = [False]


def xts_native(direction, key, tweak, j, block):
    """One 16-byte block of AES-XTS as a pair of NATIVE z3 functions E/D(key, tweak, block index, data): XTS processes
    block j of a data unit with a tweak derived from (key2, tweak, j) only.  E and D are tied together by instantiating
    D(k,t,j,E(k,t,j,p)) = p (resp. E(..D(..c)) = c) at every application, which is all a bounded harness can observe."""
    from .sbytes import from_bytes
    k, t, d = items_of(key), items_of(tweak), items_of(block)
    kbits = 8 * len(k)
    sig = (z3.BitVecSort(kbits), z3.BitVecSort(128), z3.BitVecSort(16), z3.BitVecSort(128), z3.BitVecSort(128))
    E, D = z3.Function(f"XTS-E{kbits}", *sig), z3.Function(f"XTS-D{kbits}", *sig)
    CTX.uses_uf = True

    def bv(items, bits):
        v = from_bytes(items, "big")
        if isinstance(v, int):
            return z3.BitVecVal(v, bits)
        e = v.e
        return z3.Extract(bits - 1, 0, e) if e.size() >= bits else z3.ZeroExt(bits - e.size(), e)
    kk, tt, jj, dd = bv(k, kbits), bv(t, 128), z3.BitVecVal(j, 16), bv(d, 128)
    if direction == "enc":
        out = E(kk, tt, jj, dd)
        CTX.add(D(kk, tt, jj, out) == dd)
    else:
        out = D(kk, tt, jj, dd)
        CTX.add(E(kk, tt, jj, out) == dd)
    record("xts", dir=direction, key=k, tweak=t, j=j)
    return [SymInt._raw(z3.ZeroExt(1, z3.Extract(127 - 8 * i, 120 - 8 * i, out)), 0, 255, 4) for i in range(16)]


def xor_bytes(a, b):
    return [x ^ y for x, y in zip(a, b)]


def ctr_keystream(name, key, counter_block_int, nblocks_bytes):
    """KS for AES-CTR: block i = UF(name, key, (counter + i) mod 2^128 as 16 bytes)."""
    out = []
    n = (nblocks_bytes + 15) // 16
    for i in range(n):
        cb = (counter_block_int + i) % (1 << 128)
        cbb = cb.to_bytes(16, "big") if isinstance(cb, int) else items_of(cb.to_bytes(16, "big"))
        out.extend(ks_native(name, key, cbb) if NATIVE_KS[0] else uf(name, [key, cbb], 16))
    return out[:nblocks_bytes]


# ------------------------------------------------------------------------------------------------
# model of the part of `cryptography` that spsdk.crypto.symmetric uses
class _Alg:
    def __init__(self, key):
        n = len(key)
        if n * 8 not in self.key_sizes:
            raise ValueError(f"Invalid key size ({n * 8}) for {self.name}.")
        self.key = key


class _AES(_Alg):
    name = "AES"
    block_size = 128
    key_sizes = frozenset([128, 192, 256, 512])


class _SM4(_Alg):
    name = "SM4"
    block_size = 128
    key_sizes = frozenset([128])


class algorithms:
    AES = _AES
    SM4 = _SM4


class _Mode:
    def __init__(self, iv=None):
        self.iv = iv


class modes:
    class ECB(_Mode):
        name = "ECB"

    class CBC(_Mode):
        name = "CBC"

    class CTR(_Mode):
        name = "CTR"

    class XTS(_Mode):
        name = "XTS"


class _Ctx:
    def __init__(self, cipher, direction):
        self.c, self.dir, self.buf = cipher, direction, []

    def update(self, data):
        self.buf.extend(items_of(data))
        return b""

    def finalize(self):
        c = self.c
        alg, mode = c.alg, c.mode
        data = self.buf
        iv = items_of(mode.iv) if mode.iv is not None else []
        record("cipher", alg=alg.name, mode=mode.name, dir=self.dir, key=items_of(alg.key), iv=iv, data=list(data))
        if mode.name in ("ECB", "CBC") and len(data) % 16:
            raise ValueError("The length of the provided data is not a multiple of the block length.")
        if mode.name == "XTS" and len(data) < 16:
            raise ValueError("XTS needs at least one block")
        name = f"{alg.name}-{mode.name}"
        if mode.name == "CTR":
            from .sbytes import from_bytes
            ctr = from_bytes(iv, "big")
            ks = ctr_keystream(f"{alg.name}-KS", items_of(alg.key), ctr, len(data))
            return SymBytes.make(xor_bytes(data, ks))
        if mode.name == "ECB":
            out = []
            for o in range(0, len(data), 16):
                f = enc if self.dir == "enc" else dec
                out.extend(f(f"{alg.name}-ECB", alg.key, [], data[o: o + 16]))
            return SymBytes.make(out)
        if mode.name == "XTS" and XTS_BLOCKWISE[0] and len(data) % 16 == 0:
            out = []
            for j in range(len(data) // 16):
                out.extend(xts_native(self.dir, alg.key, iv, j, data[16 * j: 16 * j + 16]))
            return SymBytes.make(out)
        f = enc if self.dir == "enc" else dec
        return SymBytes.make(f(name, alg.key, iv, data))


class Cipher:
    def __init__(self, alg, mode, backend=None):
        if mode.name == "CBC" and len(mode.iv) * 8 != alg.block_size:
            raise ValueError(f"Invalid IV size ({len(mode.iv)}) for CBC.")
        if mode.name == "CTR" and len(mode.iv) * 8 != alg.block_size:
            raise ValueError(f"Invalid nonce size ({len(mode.iv)}) for CTR.")
        if mode.name == "XTS":
            if len(mode.iv) != 16:
                raise ValueError("tweak must be 128-bits (16 bytes)")
            if len(alg.key) not in (32, 64):
                raise ValueError("The XTS specification requires a 256-bit key for AES-128-XTS and 512-bit key")
        elif len(alg.key) == 64:
            raise ValueError("512-bit keys are XTS only")
        self.alg, self.mode = alg, mode

    def encryptor(self):
        return _Ctx(self, "enc")

    def decryptor(self):
        return _Ctx(self, "dec")


class _AESCCM:
    def __init__(self, key, tag_length=16):
        if len(key) not in (16, 24, 32):
            raise ValueError("AESCCM key must be 128, 192, or 256 bits.")
        if tag_length not in (4, 6, 8, 10, 12, 14, 16):
            raise ValueError("Invalid tag_length")
        self.key, self.tag_length = key, tag_length

    def _check(self, nonce, data_len):
        if not 7 <= len(nonce) <= 13:
            raise ValueError("Nonce must be between 7 and 13 bytes")
        if data_len >= 1 << (8 * (15 - len(nonce))):
            raise ValueError("Data too long for nonce")

    def encrypt(self, nonce, data, aad):
        self._check(nonce, len(data))
        aad = aad or b""
        record("ccm", dir="enc", key=items_of(self.key), nonce=items_of(nonce), data=items_of(data), aad=items_of(aad),
               tag_len=self.tag_length)
        ct = enc("AES-CCM", self.key, list(items_of(nonce)), data)
        tag = uf("AES-CCM-TAG", [self.key, nonce, aad, data, [self.tag_length]], self.tag_length)
        return SymBytes.make(ct + tag)

    def decrypt(self, nonce, data, aad):
        aad = aad or b""
        d = items_of(data)
        if len(d) < self.tag_length:
            raise _InvalidTag()
        self._check(nonce, len(d) - self.tag_length)
        record("ccm", dir="dec", key=items_of(self.key), nonce=items_of(nonce), data=d, aad=items_of(aad),
               tag_len=self.tag_length)
        ct, tag = d[: len(d) - self.tag_length], d[len(d) - self.tag_length:]
        pt = dec("AES-CCM", self.key, list(items_of(nonce)), ct)
        exp = uf("AES-CCM-TAG", [self.key, nonce, aad, pt, [self.tag_length]], self.tag_length)
        ok = _eq_term(exp, tag)
        if not bool(ok):
            raise _InvalidTag()
        return SymBytes.make(pt)


class _InvalidTag(Exception):
    pass


class aead:
    AESCCM = _AESCCM


class keywrap:
    class InvalidUnwrap(Exception):
        pass

    @staticmethod
    def aes_key_wrap(kek, key, backend=None):
        if len(kek) not in (16, 24, 32):
            raise ValueError("The wrapping key must be a valid AES key length")
        if len(key) < 16 or len(key) % 8:
            raise ValueError("The key to wrap must be at least 16 bytes and a multiple of 8 bytes")
        record("wrap", dir="wrap", kek=items_of(kek), key=items_of(key))
        body = enc("AES-WRAP", kek, [], key)
        iv = uf("AES-WRAP-IV", [kek, key], 8)
        return SymBytes.make(iv + body)

    @staticmethod
    def aes_key_unwrap(kek, wrapped, backend=None):
        w = items_of(wrapped)
        if len(w) < 24 or len(w) % 8:
            raise keywrap.InvalidUnwrap("Must be at least 24 bytes / multiple of 8")
        record("wrap", dir="unwrap", kek=items_of(kek), key=w)
        key = dec("AES-WRAP", kek, [], w[8:])
        exp = uf("AES-WRAP-IV", [kek, key], 8)
        if not bool(_eq_term(exp, w[:8])):
            raise keywrap.InvalidUnwrap()
        return SymBytes.make(key)


def install_symmetric():
    """Replace the `cryptography` names inside spsdk.crypto.symmetric by the models above."""
    import spsdk.crypto.symmetric as S
    S.Cipher, S.algorithms, S.modes, S.aead, S.keywrap = Cipher, algorithms, modes, aead, keywrap
    return S


# ------------------------------------------------------------------------------------------------
HASH_LEN = {"sha1": 20, "sha224": 28, "sha256": 32, "sha384": 48, "sha512": 64, "md5": 16, "sm3": 32}


def _alg_name(algorithm):
    n = getattr(algorithm, "label", None) or getattr(algorithm, "name", None) or str(algorithm)
    return n.lower()


def get_hash(data, algorithm=None):
    n = "sha256" if algorithm is None else _alg_name(algorithm)
    d = items_of(data)
    record("hash", alg=n, data=list(d))
    return SymBytes.make(uf("H-" + n, [d], HASH_LEN[n]))


def hmac(key, data, algorithm=None):
    n = "sha256" if algorithm is None else _alg_name(algorithm)
    record("hmac", alg=n, key=items_of(key), data=items_of(data))
    return SymBytes.make(uf("HMAC-" + n, [key, data], HASH_LEN[n]))


def cmac(key, data):
    record("cmac", key=items_of(key), data=items_of(data))
    return SymBytes.make(uf("CMAC", [key, data], 16))


class HashObj:
    """stand-in for spsdk.crypto.hash.Hash (incremental)."""

    def __init__(self, algorithm=None):
        self.alg = algorithm
        self.buf = []

    def update(self, data):
        self.buf.extend(items_of(data))

    def update_int(self, value):
        from .core import SymInt as _S
        raise Unsupported("Hash.update_int")

    def finalize(self):
        return get_hash(self.buf, self.alg)

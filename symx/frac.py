"""Exact rational produced by `a / b` on symbolic integers; only floor/ceil/int/compare are modelled.

Python computes a float here; for operands below 2**53 (quotients exactly representable or
correctly rounded away from integers) math.ceil/floor of the float equals the exact rational's.
Harnesses using this state the 2**53 bound.
"""
from .core import SymInt, Unsupported, lift, If


class SymFrac:
    def __init__(self, n, d):
        self.n = n
        self.d = d

    def _pos(self):
        d = self.d
        if isinstance(d, (int,)):
            if d == 0:
                raise ZeroDivisionError("division by zero")
            return (self.n, d) if d > 0 else (-self.n, -d)
        if bool(d == 0):
            raise ZeroDivisionError("division by zero")
        if bool(d > 0):
            return self.n, d
        return -self.n, -d

    def __floor__(self):
        n, d = self._pos()
        return n // d

    def __ceil__(self):
        n, d = self._pos()
        return -((-n) // d)

    def __trunc__(self):
        n, d = self._pos()
        neg = lift(n) < 0
        if isinstance(neg, bool):
            return -((-n) // d) if neg else n // d
        return If(neg, -((-n) // d), n // d)

    __int__ = __trunc__

    def _cmp(self, o, op):
        n, d = self._pos()
        if isinstance(o, SymFrac):
            n2, d2 = o._pos()
            return op(n * d2, n2 * d)
        if isinstance(o, float):
            if o != int(o):
                raise Unsupported("compare rational with non-integral float")
            o = int(o)
        return op(n, o * d)

    def __lt__(self, o):
        return self._cmp(o, lambda a, b: a < b)

    def __le__(self, o):
        return self._cmp(o, lambda a, b: a <= b)

    def __gt__(self, o):
        return self._cmp(o, lambda a, b: a > b)

    def __ge__(self, o):
        return self._cmp(o, lambda a, b: a >= b)

    def __eq__(self, o):
        return self._cmp(o, lambda a, b: a == b)

    def __ne__(self, o):
        return self._cmp(o, lambda a, b: a != b)

    def __float__(self):
        raise Unsupported("float value of symbolic quotient")

    def __mul__(self, o):
        if isinstance(o, (int, SymInt)):
            return SymFrac(self.n * o, self.d)
        raise Unsupported("rational arithmetic")

    __rmul__ = __mul__

    def __add__(self, o):
        if isinstance(o, (int, SymInt)):
            return SymFrac(self.n + o * self.d, self.d)
        raise Unsupported("rational arithmetic")

    __radd__ = __add__

    def __format__(self, spec):
        from .core import SENTINEL
        return SENTINEL

    __repr__ = __str__ = lambda self: "⟦sym⟧"

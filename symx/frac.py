"""Exact rational produced by `a / b` on symbolic integers; only floor/ceil/int/compare are modelled.

Python computes a float here; for operands below 2**53 (quotients exactly representable or
correctly rounded away from integers) math.ceil/floor of the float equals the exact rational's.
Harnesses using this state the 2**53 bound.
"""
from .core import SymInt, Unsupported, lift, If


LIMIT = 1 << 53


def true_div(n, d):
    """int / int.  Exact rational while |numerator| < 2**53 (then floor/ceil of the correctly rounded double
    equal those of the rational); IEEE double model (z3 FP, BV back end only) beyond that."""
    ln = lift(n)
    if ln.lo is not None and ln.hi is not None and -LIMIT < ln.lo and ln.hi < LIMIT:
        return SymFrac(n, d)
    import z3
    from .core import CTX
    if CTX.logic != "bv":
        raise Unsupported("float division of integers that may exceed 2**53 (Int back end has no FP model)")
    return SymFloat.div(n, d)


class SymFloat:
    """IEEE-754 double term; only what int-valued code does with a quotient is modelled."""

    def __init__(self, e):
        from .core import CTX
        CTX.uses_fp = True
        self.e = e

    @staticmethod
    def of_int(x):
        import z3
        x = lift(x)
        if not z3.is_bv(x.e):
            raise Unsupported("float of Int back-end value")
        return z3.fpSignedToFP(z3.RNE(), x.e, z3.Float64())

    @staticmethod
    def div(n, d):
        import z3
        dl = lift(d)
        if bool(dl == 0):
            raise ZeroDivisionError("division by zero")
        return SymFloat(z3.fpDiv(z3.RNE(), SymFloat.of_int(n), SymFloat.of_int(dl)))

    def _to_int(self, rm):
        import z3
        from .core import mkint
        r = z3.fpRoundToIntegral(rm, self.e)
        # quotient magnitude is below 2**1024; callers in spsdk stay far below 2**127
        return mkint(z3.fpToSBV(z3.RTZ(), r, z3.BitVecSort(130)), None, None, 64)

    def __ceil__(self):
        import z3
        return self._to_int(z3.RTP())

    def __floor__(self):
        import z3
        return self._to_int(z3.RTN())

    def __trunc__(self):
        import z3
        return self._to_int(z3.RTZ())

    __int__ = __trunc__

    def __mul__(self, o):
        import z3
        if isinstance(o, (int, SymInt)):
            return SymFloat(z3.fpMul(z3.RNE(), self.e, SymFloat.of_int(o)))
        raise Unsupported("float arithmetic")

    __rmul__ = __mul__

    def __float__(self):
        raise Unsupported("float value of symbolic quotient")

    def __format__(self, spec):
        return "⟦sym⟧"

    __repr__ = __str__ = lambda self: "⟦sym⟧"


class SymFrac:
    def __init__(self, n, d):
        self.n = n
        self.d = d

    def _pos(self):
        d = self.d
        if isinstance(d, (int,)):
            if d == 0:
                raise ZeroDivisionError("division by zero")
            return (self.n, d) if d > 0 else (-self.n, -d)
        if bool(d == 0):
            raise ZeroDivisionError("division by zero")
        if bool(d > 0):
            return self.n, d
        return -self.n, -d

    def __floor__(self):
        n, d = self._pos()
        return n // d

    def __bool__(self):
        return bool(lift(self.n) != 0)

    def __ceil__(self):
        n, d = self._pos()
        return -((-n) // d)

    def __trunc__(self):
        n, d = self._pos()
        neg = lift(n) < 0
        if isinstance(neg, bool):
            return -((-n) // d) if neg else n // d
        return If(neg, -((-n) // d), n // d)

    __int__ = __trunc__

    def _cmp(self, o, op):
        n, d = self._pos()
        if isinstance(o, SymFrac):
            n2, d2 = o._pos()
            return op(n * d2, n2 * d)
        if isinstance(o, float):
            if o != int(o):
                raise Unsupported("compare rational with non-integral float")
            o = int(o)
        return op(n, o * d)

    def __lt__(self, o):
        return self._cmp(o, lambda a, b: a < b)

    def __le__(self, o):
        return self._cmp(o, lambda a, b: a <= b)

    def __gt__(self, o):
        return self._cmp(o, lambda a, b: a > b)

    def __ge__(self, o):
        return self._cmp(o, lambda a, b: a >= b)

    def __eq__(self, o):
        return self._cmp(o, lambda a, b: a == b)

    def __ne__(self, o):
        return self._cmp(o, lambda a, b: a != b)

    def __float__(self):
        raise Unsupported("float value of symbolic quotient")

    def __mul__(self, o):
        if isinstance(o, (int, SymInt)):
            return SymFrac(self.n * o, self.d)
        raise Unsupported("rational arithmetic")

    __rmul__ = __mul__

    def __add__(self, o):
        if isinstance(o, (int, SymInt)):
            return SymFrac(self.n + o * self.d, self.d)
        raise Unsupported("rational arithmetic")

    __radd__ = __add__

    def __format__(self, spec):
        from .core import SENTINEL
        return SENTINEL

    __repr__ = __str__ = lambda self: "⟦sym⟧"

"""Verified function summaries (DESIGN 2.3a): loop-free stand-ins for tiny helpers whose control flow
depends on a value although their result does not.  A summary may be installed only by a harness that
also proves, in the same run and from the current source, that it equals the real function on the
domain where it is used (see harness/*: case kind 'summary_equiv')."""
from .core import If, SymInt, lift


def bytes_cnt_summary(real, max_bytes):
    """Summary of spsdk.utils.misc.get_bytes_cnt_of_int for 0 <= value < 256**max_bytes.
    Negative values: the real loop never terminates -> TimeoutError (matched by the concrete replay limit)."""
    from spsdk.exceptions import SPSDKValueError

    def get_bytes_cnt_of_int(value, align_to_2n=True, byte_cnt=None):
        if not isinstance(value, SymInt):
            if isinstance(value, int) and value < 0:
                raise TimeoutError("get_bytes_cnt_of_int does not terminate on negative values")
            return real(value, align_to_2n, byte_cnt)
        if bool(value < 0):
            raise TimeoutError("get_bytes_cnt_of_int does not terminate on negative values")
        if value.hi is not None and value.hi >= (1 << (8 * max_bytes)):
            if bool(value >= (1 << (8 * max_bytes))):
                from .core import BoundsExceeded
                raise BoundsExceeded("value outside the domain of the verified summary")
        # (value == 0 needs no case of its own: the count below is 1 for it, which is what the real function returns)
        cnt = 1
        for i in range(1, max_bytes):
            cnt = cnt + If(value >= (1 << (8 * i)), 1, 0)
        if align_to_2n:
            cnt = If(cnt > 2, (cnt + 3) // 4 * 4, cnt) if isinstance(cnt, SymInt) else (cnt if cnt <= 2 else (cnt + 3) // 4 * 4)
        if byte_cnt and bool(cnt > byte_cnt):
            raise SPSDKValueError(f"Value takes more bytes than required byte count {byte_cnt} after align.")
        return byte_cnt or cnt
    get_bytes_cnt_of_int.__symx_summary__ = True
    return get_bytes_cnt_of_int

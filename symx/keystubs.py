"""Duck-typed certificate / key / signature-provider stubs (DESIGN 2.4, 'key/cert objects').

A stub certificate is an opaque body of bytes whose first two bytes carry the two facts the analysed code
reads from a real X.509 certificate (CA flag, signature size); parse() of a stub is the inverse of export().
Signatures are an uninterpreted function of (public key identity, signed bytes), recorded per call.
"""
from __future__ import annotations

from . import stubs
from .sbytes import SymBytes, items_of


class StubPublicKey:
    def __init__(self, ident, sig_len):
        self.ident = list(ident)
        self.signature_size = sig_len
        self.key_size = sig_len * 8

    def export(self, *a, **k):
        return SymBytes.make(self.ident)

    def verify_signature(self, signature, data, *a, **k):
        exp = stubs.uf("SIGN", [self.ident, items_of(data)], self.signature_size)
        stubs.record("verify", key=self.ident, data=items_of(data), signature=items_of(signature))
        return bool(SymBytes(exp).eq_term(items_of(signature)))

    def key_hash(self, *a, **k):
        return stubs.get_hash(self.ident)

    def __eq__(self, o):
        return isinstance(o, StubPublicKey) and stubs._same(self.ident, o.ident)

    def __hash__(self):
        return 1


class StubCertificate:
    """body[0] = CA flag (0/1), body[1] = signature size // 64, remaining bytes opaque ("DER")."""

    class _V:
        name = "v3"
    version = _V

    def __init__(self, body):
        self.body = list(items_of(body))
        self.ca = bool(self.body[0])
        self.sig_len = int(self.body[1]) * 64
        self.self_signed = True
        self.signature = bytes(self.sig_len)

    @staticmethod
    def make(opaque, sig_len=256, ca=False):
        return StubCertificate([1 if ca else 0, sig_len // 64] + list(items_of(opaque)))

    @property
    def raw_size(self):
        return len(self.body)

    def export(self, *a, **k):
        return SymBytes.make(self.body)

    def validate(self, parent):
        return True

    def get_public_key(self):
        return StubPublicKey(self.body, self.sig_len)

    def public_key_hash(self, *a, **k):
        return stubs.get_hash(self.body)

    @classmethod
    def parse(cls, data, *a, **k):
        return cls(data)

    def __str__(self):
        return "<stub certificate>"


class StubSignatureProvider:
    def __init__(self, ident, sig_len):
        self.ident = list(items_of(ident))
        self.signature_length = sig_len
        self.calls = []

    def get_signature(self, data):
        self.calls.append(items_of(data))
        return SymBytes.make(stubs.uf("SIGN", [self.ident, items_of(data)], self.signature_length))

    def sign(self, data):
        return self.get_signature(data)

    def try_to_verify_public_key(self, key):
        return None

    def verify_public_key(self, key):
        return True

    def info(self):
        return "<stub signature provider>"


# ------------------------------------------------------------------------------------------------
_CLS = {}
CURVE_BY_LEN = {64: "secp256r1", 96: "secp384r1", 132: "secp521r1"}
COORD = {"secp256r1": 32, "secp384r1": 48, "secp521r1": 66}
KEYBITS = {"secp256r1": 256, "secp384r1": 384, "secp521r1": 521}


def classes():
    """Stub subclasses of the real spsdk key / provider classes (created after the loader is active so that the
    analysed code's isinstance() checks accept them)."""
    if _CLS:
        return _CLS
    from spsdk.crypto.keys import PublicKeyEcc, PublicKeyRsa
    from spsdk.crypto.signature_provider import SignatureProvider
    from .sbytes import from_bytes

    class _Nums:
        def __init__(self, **kw):
            self.__dict__.update(kw)

    class _Curve:
        def __init__(self, name):
            self.name = name
            self.key_size = KEYBITS[name]

    class FakeEcKey:
        """duck-typed cryptography EllipticCurvePublicKey: only what spsdk's own properties read"""

        def __init__(self, x, y, curve):
            self._n = _Nums(x=x, y=y)
            self.curve = _Curve(curve)
            self.key_size = KEYBITS[curve]

        def public_numbers(self):
            return self._n

    class StubEcc(PublicKeyEcc):
        """ECC public key with symbolic coordinates.  The REAL spsdk properties and export(NXP) run on top of a fake
        cryptography key object; recreate() skips the library's point validation; signatures are UF."""

        def __init__(self, x, y, curve="secp256r1"):
            self.key = FakeEcKey(x, y, str(getattr(curve, "value", curve)))

        @classmethod
        def recreate(cls, coor_x, coor_y, curve):
            return cls(coor_x, coor_y, curve)

        def ident(self):
            return items_of(self.export())

        def verify_signature(self, signature, data, *a, **k):
            exp = stubs.uf("SIGN", [self.ident(), items_of(data)], self.signature_size)
            stubs.record("verify", key=self.ident(), data=items_of(data), signature=items_of(signature))
            return bool(SymBytes(exp).eq_term(items_of(signature)))

        @classmethod
        def parse(cls, data):
            return cls.recreate_from_data(data)

        def __eq__(self, o):
            return isinstance(o, StubEcc) and self.curve == o.curve and bool(SymBytes(self.ident()).eq_term(o.ident()))

        def __hash__(self):
            return 7

        def __repr__(self):
            return "<stub ECC key>"

        __str__ = __repr__

    class FakeRsaKey:
        def __init__(self, n, e, bits):
            self._n = _Nums(n=n, e=e)
            self.key_size = bits

        def public_numbers(self):
            return self._n

    class StubRsa(PublicKeyRsa):
        def __init__(self, n, e, bits):
            self.key = FakeRsaKey(n, e, bits)

        def ident(self):
            return items_of(self.export())

        def verify_signature(self, signature, data, *a, **k):
            exp = stubs.uf("SIGN", [self.ident(), items_of(data)], self.signature_size)
            return bool(SymBytes(exp).eq_term(items_of(signature)))

        def __eq__(self, o):
            return isinstance(o, StubRsa) and bool(SymBytes(self.ident()).eq_term(o.ident()))

        def __hash__(self):
            return 9

        def __repr__(self):
            return "<stub RSA key>"

        __str__ = __repr__

    def lift_bytes(v, n):
        return v.to_bytes(n, "big")

    class StubSP(SignatureProvider):
        identifier = "symx-stub"

        def __init__(self, ident, sig_len):
            self.ident = list(items_of(ident))
            self._len = sig_len
            self.calls = []

        @property
        def signature_length(self):
            return self._len

        def sign(self, data):
            self.calls.append(items_of(data))
            return SymBytes.make(stubs.uf("SIGN", [self.ident, items_of(data)], self._len))

        def get_signature(self, data, encoding=None):
            return self.sign(data)

        def verify_public_key(self, public_key):
            return True

        def try_to_verify_public_key(self, public_key):
            return None

    _CLS.update(StubEcc=StubEcc, StubRsa=StubRsa, StubSP=StubSP)
    return _CLS


class StubKeyCertificate(StubCertificate):
    """Stub certificate carrying a stub RSA public key: body = [ca, bits//512, n (bits/8 bytes), e (3 bytes), opaque]."""

    def __init__(self, body):
        self.body = list(items_of(body))
        self.ca = bool(self.body[0])
        self.bits = int(self.body[1]) * 512
        self.sig_len = self.bits // 8
        self.self_signed = True
        self.signature = bytes(self.sig_len)

    @staticmethod
    def make_rsa(key, opaque=b"", ca=False):
        bits = key.key_size
        return StubKeyCertificate([1 if ca else 0, bits // 512] + key.ident() + list(items_of(opaque)))

    def get_public_key(self):
        from .sbytes import from_bytes
        n = self.bits // 8
        cls = classes()["StubRsa"]
        return cls(from_bytes(self.body[2: 2 + n], "big"), from_bytes(self.body[2 + n: 5 + n], "big"), self.bits)

    def public_key_hash(self, *a, **k):
        return stubs.get_hash(self.get_public_key().export())

"""Duck-typed certificate / key / signature-provider stubs (DESIGN 2.4, 'key/cert objects').

A stub certificate is an opaque body of bytes whose first two bytes carry the two facts the analysed code
reads from a real X.509 certificate (CA flag, signature size); parse() of a stub is the inverse of export().
Signatures are an uninterpreted function of (public key identity, signed bytes), recorded per call.
"""
from __future__ import annotations

from . import stubs
from .sbytes import SymBytes, items_of


class StubPublicKey:
    def __init__(self, ident, sig_len):
        self.ident = list(ident)
        self.signature_size = sig_len
        self.key_size = sig_len * 8

    def export(self, *a, **k):
        return SymBytes.make(self.ident)

    def verify_signature(self, signature, data, *a, **k):
        exp = stubs.uf("SIGN", [self.ident, items_of(data)], self.signature_size)
        stubs.record("verify", key=self.ident, data=items_of(data), signature=items_of(signature))
        return bool(SymBytes(exp).eq_term(items_of(signature)))

    def key_hash(self, *a, **k):
        return stubs.get_hash(self.ident)

    def __eq__(self, o):
        return isinstance(o, StubPublicKey) and stubs._same(self.ident, o.ident)

    def __hash__(self):
        return 1


class StubCertificate:
    """body[0] = CA flag (0/1), body[1] = signature size // 64, remaining bytes opaque ("DER")."""

    class _V:
        name = "v3"
    version = _V

    def __init__(self, body):
        self.body = list(items_of(body))
        self.ca = bool(self.body[0])
        self.sig_len = int(self.body[1]) * 64
        self.self_signed = True
        self.signature = bytes(self.sig_len)

    @staticmethod
    def make(opaque, sig_len=256, ca=False):
        return StubCertificate([1 if ca else 0, sig_len // 64] + list(items_of(opaque)))

    @property
    def raw_size(self):
        return len(self.body)

    def export(self, *a, **k):
        return SymBytes.make(self.body)

    def validate(self, parent):
        return True

    def get_public_key(self):
        return StubPublicKey(self.body, self.sig_len)

    def public_key_hash(self, *a, **k):
        return stubs.get_hash(self.body)

    @classmethod
    def parse(cls, data, *a, **k):
        return cls(data)

    def __str__(self):
        return "<stub certificate>"


class StubSignatureProvider:
    def __init__(self, ident, sig_len):
        self.ident = list(items_of(ident))
        self.signature_length = sig_len
        self.calls = []

    def get_signature(self, data):
        self.calls.append(items_of(data))
        return SymBytes.make(stubs.uf("SIGN", [self.ident, items_of(data)], self.signature_length))

    def sign(self, data):
        return self.get_signature(data)

    def try_to_verify_public_key(self, key):
        return None

    def verify_public_key(self, key):
        return True

    def info(self):
        return "<stub signature provider>"

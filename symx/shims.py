"""Replacement builtins and modelled library leaves (struct, math, crcmod, binascii.crc32).

Every shim behaves exactly like the original on concrete values.
"""
from __future__ import annotations

import builtins
import math as _math
import re as _re
import struct as _struct

import z3

from . import core
from .core import (CTX, SENTINEL, If, SymBool, SymInt, Unsupported, lift, mkbool, mkint)
from .frac import SymFrac, SymFloat
from .sbytes import SymBytes, SymView, from_bytes, items_of

_ri = builtins.isinstance
_issub = builtins.issubclass


def _issym(x):
    return _ri(x, (SymInt, SymBool))


# ------------------------------------------------------------------------------------------------
# type stand-ins: `int`, `bytes`, `bytearray`, `memoryview`, `bool` as seen by spsdk modules
class _TypeShim(type):
    def __instancecheck__(cls, o):
        return sx_isinstance(o, cls._real)

    def __subclasscheck__(cls, c):
        return _issub(c, cls._real)

    def __eq__(cls, o):
        return o is cls or o is cls._real

    def __hash__(cls):
        return hash(cls._real)

    def __getattr__(cls, name):
        return getattr(cls._real, name)

    def __repr__(cls):
        return repr(cls._real)

    def __or__(cls, o):  # int | None in annotations
        return cls._real | o

    def __ror__(cls, o):
        return o | cls._real


def _has_sentinel(x):
    return _ri(x, str) and SENTINEL in x


class sx_int(metaclass=_TypeShim):
    _real = int

    def __new__(cls, x=0, *a, **k):
        if _ri(x, SymInt):
            return x
        if _ri(x, SymBool):
            return lift(x)
        if _ri(x, (SymFrac, SymFloat)):
            return x.__trunc__()
        if _has_sentinel(x):
            raise Unsupported("int() of a string rendered from a symbolic value")
        if _ri(x, SymBytes):
            x = x.concrete()
        if type(x).__name__ == "SymStr":
            from .sstr import sym_int
            return sym_int(x, *a, **k)
        return int(x, *a, **k)

    @staticmethod
    def from_bytes(data, byteorder="big", *, signed=False):
        return from_bytes(data, byteorder, signed=signed)

    @staticmethod
    def to_bytes(v, length=1, byteorder="big", *, signed=False):
        if _ri(length, SymInt):
            length = length.__index__()
        byteorder = getattr(byteorder, "value", byteorder)
        if _ri(v, SymInt):
            return v.to_bytes(length, byteorder, signed=signed)
        return int.to_bytes(v, length, byteorder, signed=signed)

    @staticmethod
    def bit_length(v):
        return v.bit_length()


class sx_bool(metaclass=_TypeShim):
    _real = bool

    def __new__(cls, x=False):
        if _ri(x, SymBool):
            return x
        if _ri(x, SymInt):
            return x != 0
        return bool(x)


class sx_bytes(metaclass=_TypeShim):
    _real = bytes

    def __new__(cls, x=b"", *a, **k):
        if _issym(x):
            x = x.__index__()
        if _ri(x, (SymBytes, SymView)):
            return SymBytes.make(x.items, False)
        if _ri(x, (str, int, bytes, bytearray, memoryview)):
            return bytes(x, *a, **k)
        if hasattr(x, "__bytes__"):
            return x.__bytes__()
        x = list(x)
        for it in x:
            if _issym(it):
                return SymBytes(x, False)
        return bytes(x)

    fromhex = bytes.fromhex
    maketrans = bytes.maketrans

    @staticmethod
    def join(sep, parts):
        return sx_join(sep, parts)


class sx_bytearray(metaclass=_TypeShim):
    _real = bytearray

    def __new__(cls, x=b"", *a, **k):
        if _issym(x):
            x = x.__index__()
        if _ri(x, (SymBytes, SymView)):
            return SymBytes(x.items, True)
        if _ri(x, int):
            return SymBytes([0] * x, True)
        if _ri(x, (str, bytes, bytearray, memoryview)):
            return SymBytes(list(bytes(x, *a, **k)), True)
        return SymBytes(list(x), True)

    fromhex = staticmethod(lambda s: SymBytes(list(bytes.fromhex(s)), True))


class sx_memoryview(metaclass=_TypeShim):
    _real = memoryview

    def __new__(cls, x):
        if _ri(x, SymBytes):
            return SymView(x)
        if _ri(x, SymView):
            return x
        return memoryview(x)


def _real_types(c):
    return getattr(c, "_real", c) if _ri(c, type) else c


def sx_isinstance(o, c):
    if _ri(c, tuple):
        for x in c:
            if sx_isinstance(o, x):
                return True
        return False
    c = _real_types(c)
    if _ri(o, SymInt):
        return c is int or c is object or c is SymInt
    if _ri(o, SymBool):
        return c is bool or c is int or c is object or c is SymBool
    if _ri(o, SymBytes):
        if c is bytes:
            return not o.mutable
        if c is bytearray:
            return o.mutable
        return c is object or c is SymBytes
    if _ri(o, SymView):
        return c is memoryview or c is object
    if type(o).__name__ == "SymStr":
        return c is str or c is object
    try:
        return _ri(o, c)
    except TypeError:
        import typing
        org = typing.get_origin(c)
        if org is typing.Union or (hasattr(__import__("types"), "UnionType") and _ri(c, __import__("types").UnionType)):
            return any(sx_isinstance(o, a) for a in typing.get_args(c))
        raise


def sx_issubclass(a, b):
    if _ri(b, tuple):
        b = tuple(_real_types(x) for x in b)
    else:
        b = _real_types(b)
    return _issub(_real_types(a), b)


def sx_type(*a, **k):
    if len(a) == 1 and not k:
        o = a[0]
        if _ri(o, SymInt):
            return sx_int
        if _ri(o, SymBool):
            return sx_bool
        if _ri(o, SymBytes):
            return sx_bytearray if o.mutable else sx_bytes
        return type(o)
    return type(*a, **k)


_NATIVE_LEN = (list, tuple, dict, str, bytes, bytearray, set, frozenset, range, memoryview)


def sx_len(o):
    """len() that lets a python-level __len__ return a symbolic integer (native len() would force
    it through __index__)."""
    t = type(o)
    if t in _NATIVE_LEN or t is SymBytes:
        return len(o)
    f = getattr(t, "__len__", None)
    if f is None or not hasattr(f, "__code__"):
        return len(o)
    r = f(o)
    if _ri(r, SymInt):
        if bool(r < 0):
            raise ValueError("__len__() should return >= 0")
        return r
    return len(o)


_PLAIN = (bool, int, str, bytes, list, tuple, dict, type(None), float, set, frozenset, bytearray)


def sx_truth(o):
    t = type(o)
    if t in _PLAIN or t is SymBool or t is SymInt or t is SymBytes:
        return o
    if getattr(t, "__bool__", None) is None:
        f = getattr(t, "__len__", None)
        if f is not None and hasattr(f, "__code__"):
            r = f(o)
            if _ri(r, SymInt):
                return r != 0
            return r != 0
    return o


def sx_abs(x):
    if _ri(x, SymInt):
        return x.__abs__()
    return abs(x)


def _fold(args, pick_first_if):
    it = iter(args)
    best = next(it)
    for x in it:
        if _issym(x) or _issym(best):
            c = pick_first_if(lift(best), lift(x))
            if _ri(c, bool):
                best = best if c else x
            else:
                best = If(c, best, x)
        else:
            best = best if pick_first_if(best, x) else x
    return best


def sx_max(*a, **k):
    if len(a) == 1:
        seq = list(a[0])
    else:
        seq = list(a)
    if k.get("key") is None and seq and any(_issym(x) for x in seq):
        return _fold(seq, lambda p, q: p >= q)
    if len(a) == 1:
        return max(seq, **k)
    return max(*a, **k)


def sx_min(*a, **k):
    if len(a) == 1:
        seq = list(a[0])
    else:
        seq = list(a)
    if k.get("key") is None and seq and any(_issym(x) for x in seq):
        return _fold(seq, lambda p, q: p <= q)
    if len(a) == 1:
        return min(seq, **k)
    return min(*a, **k)


def sx_sum(it, start=0):
    acc = start
    for x in it:
        acc = acc + x
    return acc


def sx_divmod(a, b):
    if _issym(a) or _issym(b):
        return lift(a)._divmod(b)
    return divmod(a, b)


def sx_pow(a, b, m=None):
    if _issym(a) or _issym(b) or _issym(m):
        if m is None:
            return a ** b
        raise Unsupported("modular pow on symbolic values")
    return pow(a, b) if m is None else pow(a, b, m)


def sx_round(x, n=None):
    if _ri(x, SymFrac):
        raise Unsupported("round of symbolic quotient")
    if _ri(x, SymInt):
        return x
    return round(x) if n is None else round(x, n)


def sx_hex(x):
    return SENTINEL if _issym(x) else hex(x)


def sx_bin(x):
    return SENTINEL if _issym(x) else bin(x)


def sx_oct(x):
    return SENTINEL if _issym(x) else oct(x)


def sx_sorted(it, *, key=None, reverse=False):
    lst = list(it)
    probe = [key(x) for x in lst] if key else lst
    if not any(_issym(x) for x in probe):
        return sorted(lst, key=key, reverse=reverse)
    # insertion sort: comparisons fork (complete case split)
    out = []
    for x, kx in zip(lst, probe):
        pos = len(out)
        for i, (y, ky) in enumerate(out):
            if bool(kx < ky):
                pos = i
                break
        out.insert(pos, (x, kx))
    res = [x for x, _ in out]
    if reverse:
        res.reverse()
    return res


class SymSet:
    """set() of a small collection containing symbolic integers: duplicates are removed by pairwise symbolic
    comparison (complete case split); only len / iteration / membership are offered."""

    def __init__(self, items):
        self.items = []
        for x in items:
            if not sx_contains(x, self.items):
                self.items.append(x)

    def __len__(self):
        return len(self.items)

    def __iter__(self):
        return iter(self.items)

    def __contains__(self, x):
        return sx_contains(x, self.items)

    def add(self, x):
        if not sx_contains(x, self.items):
            self.items.append(x)


class sx_set(metaclass=_TypeShim):
    _real = set

    def __new__(cls, it=()):
        lst = list(it)
        if any(_issym(x) for x in lst):
            return SymSet(lst)
        return set(lst)


# ------------------------------------------------------------------------------------------------
# rewritten operations (see loader.py)
def sx_any(it):
    """any() over a materialised sequence with symbolic items: ONE disjunction instead of a fork per item"""
    if _ri(it, (list, tuple, SymBytes)) :
        items = list(it)
        if any(_issym(x) for x in items):
            if any((not _issym(x)) and x for x in items):
                return True
            return bool(core.Or(*[(x != 0) if _ri(x, SymInt) else x for x in items if _issym(x)]))
    return any(it)


def sx_all(it):
    if _ri(it, (list, tuple, SymBytes)):
        items = list(it)
        if any(_issym(x) for x in items):
            if any((not _issym(x)) and not x for x in items):
                return False
            return bool(core.And(*[(x != 0) if _ri(x, SymInt) else x for x in items if _issym(x)]))
    return all(it)


def sx_contains(a, b):
    if type(a).__name__ == "SymStr":
        if _ri(b, str):
            if len(a) == 1:
                return bool(core.Or(*[a.items[0] == ord(ch) for ch in b])) if b else False
            from .sstr import SymStr
            return SymStr([ord(ch) for ch in b]).find(a) >= 0 if len(a) <= len(b) else False
        if _ri(b, (list, tuple, set, frozenset, dict)):
            for k in b:
                if _ri(k, str) and a == k:
                    return True
            return False
    if type(b).__name__ == "SymStr":
        return b.__contains__(a)
    if _ri(a, (SymInt, SymBool)):
        if _ri(b, (dict, list, tuple, set, frozenset)) or type(b).__name__ in ("dict_keys", "dict_values"):
            for k in b:
                if k is None or _ri(k, (str, bytes, bytearray, float)):
                    continue
                # ints, symbolic ints and objects with their own == against ints (SpsdkEnum members)
                if a == k:
                    return True
            return False
        if _ri(b, range):
            if b.step == 1:
                return bool(mk_and(a >= b.start, a < b.stop))
            return bool(mk_and(a >= b.start, a < b.stop, (a - b.start) % b.step == 0)) if b.step > 0 else (a.__index__() in b)
        if _ri(b, (bytes, bytearray)):
            for k in b:
                if a == k:
                    return True
            return False
    elif _ri(b, (list, tuple)) and not _ri(a, (str, bytes)) and any(_issym(x) for x in b):
        for k in b:
            if a == k:
                return True
        return False
    elif _ri(a, SymBytes) and _ri(b, (list, tuple, dict, set, frozenset)):
        for k in b:
            if _ri(k, (bytes, bytearray, SymBytes)) and a == k:
                return True
        return False
    elif _ri(b, SymBytes):
        return b.__contains__(a)
    return a in b


def mk_and(*xs):
    return core.And(*xs)


def sx_getitem(b, a):
    if _ri(a, (SymInt, SymBool)):
        if _ri(b, dict):
            for k in b:
                if _ri(k, (int, SymInt)) and not _ri(k, bool) and a == k:
                    return b[k]
            raise KeyError(SENTINEL)
        return b[a.__index__()]
    if _ri(a, SymBytes) and _ri(b, dict):
        for k in b:
            if _ri(k, (bytes, SymBytes)) and a == k:
                return b[k]
        raise KeyError(SENTINEL)
    if type(a).__name__ == "SymStr" and _ri(b, dict):
        for k in b:
            if _ri(k, str) and a == k:
                return b[k]
        raise KeyError(SENTINEL)
    if _ri(a, slice) and _ri(b, (bytes, bytearray, list, tuple, str)) and any(_issym(x) for x in (a.start, a.stop)):
        from .sbytes import _idx
        return b[_idx(a, len(b))]
    return b[a]


def sx_join(sep, parts):
    if _ri(sep, (bytes, bytearray, SymBytes)):
        parts = list(parts)
        if _ri(sep, SymBytes) or any(_ri(p, (SymBytes, SymView)) for p in parts):
            return SymBytes(items_of(sep), False).join(parts)
        return sep.join(parts)
    return sep.join(parts)


# ------------------------------------------------------------------------------------------------
# struct model
_FMT = _re.compile(r"(\d*)([xcbB?hHiIlLqQsnNP])")
_SZ = {"x": 1, "c": 1, "b": 1, "B": 1, "?": 1, "h": 2, "H": 2, "i": 4, "I": 4, "l": 4, "L": 4, "q": 8, "Q": 8}


def _parse_fmt(fmt):
    if _ri(fmt, bytes):
        fmt = fmt.decode()
    order = "@"
    if fmt and fmt[0] in "<>=!@":
        order, fmt = fmt[0], fmt[1:]
    out = []
    for n, c in _FMT.findall(fmt.replace(" ", "")):
        n = int(n) if n else 1
        if c == "s":
            out.append(("s", n))
        else:
            if c not in _SZ:
                raise Unsupported(f"struct code {c}")
            out.extend([(c, _SZ[c])] * n)
    if order in "@":
        # native alignment: only accept formats where it coincides with standard size
        std = sum(n for _, n in out)
        if _struct.calcsize("@" + fmt) != std or _struct.pack("@H", 1) != _struct.pack("<H", 1):
            raise Unsupported("native struct alignment")
        order = "<"
    if order == "=":
        order = "<"
    return ("little" if order == "<" else "big"), out


class StructModel:
    error = _struct.error
    calcsize = staticmethod(_struct.calcsize)
    Struct = _struct.Struct

    @staticmethod
    def pack(fmt, *args):
        if not any(_ri(a, (SymInt, SymBool, SymBytes, SymView, SymFrac)) for a in args):
            return _struct.pack(fmt, *args)
        order, items = _parse_fmt(fmt)
        vals = [i for i in items if i[0] != "x"]
        if len(vals) != len(args):
            raise _struct.error(f"pack expected {len(vals)} items for packing (got {len(args)})")
        out = []
        ai = iter(args)
        pre = "<" if order == "little" else ">"
        for c, n in items:
            if c == "x":
                out.append(0)
                continue
            a = next(ai)
            if c == "s":
                if not _ri(a, (bytes, bytearray, SymBytes)):
                    raise _struct.error("argument for 's' must be a bytes object")
                b = items_of(a)[:n]
                out += b + [0] * (n - len(b))
            elif c == "?":
                if _issym(a):
                    out.append(If(a != 0 if _ri(a, SymInt) else a, 1, 0))
                else:
                    out.append(1 if a else 0)
            elif not _issym(a):
                out += list(_struct.pack(pre + c, a))
            else:
                a = lift(a)
                signed = c in "bhilq"
                lo, hi = (-(1 << (8 * n - 1)), (1 << (8 * n - 1)) - 1) if signed else (0, (1 << 8 * n) - 1)
                if bool(a < lo) or bool(a > hi):
                    raise _struct.error(f"'{c}' format requires {lo} <= number <= {hi}")
                out += items_of(a.to_bytes(n, order, signed=signed))
        return SymBytes.make(out, False)

    @staticmethod
    def unpack_from(fmt, buffer, offset=0):
        if _issym(offset):
            offset = offset.__index__()
        if not _ri(buffer, (SymBytes, SymView)):
            return _struct.unpack_from(fmt, buffer, offset)
        order, items = _parse_fmt(fmt)
        data = items_of(buffer)
        if offset < 0:
            offset += len(data)
        need = sum(n for _, n in items)
        if len(data) - offset < need:
            raise _struct.error(
                f"unpack_from requires a buffer of at least {need + offset} bytes for unpacking {need} bytes "
                f"at offset {offset} (actual buffer size is {len(data)})")
        res = []
        pos = offset
        for c, n in items:
            chunk = data[pos: pos + n]
            pos += n
            if c == "x":
                continue
            if c == "s":
                res.append(SymBytes.make(chunk, False))
            elif c == "c":
                res.append(SymBytes.make(chunk, False))
            elif c == "?":
                v = chunk[0]
                res.append((v != 0) if _issym(v) else bool(v))
            else:
                res.append(from_bytes(chunk, order, signed=c in "bhilq"))
        return tuple(res)

    @staticmethod
    def unpack(fmt, buffer):
        if not _ri(buffer, (SymBytes, SymView)):
            return _struct.unpack(fmt, buffer)
        need = _struct.calcsize(fmt)
        if len(buffer) != need:
            raise _struct.error(f"unpack requires a buffer of {need} bytes")
        return StructModel.unpack_from(fmt, buffer, 0)

    @staticmethod
    def pack_into(fmt, buffer, offset, *args):
        b = StructModel.pack(fmt, *args)
        buffer[offset: offset + len(b)] = b

    @staticmethod
    def iter_unpack(fmt, buffer):
        n = _struct.calcsize(fmt)
        if len(buffer) % n:
            raise _struct.error("iterative unpacking requires a buffer of a multiple of %d bytes" % n)
        for o in range(0, len(buffer), n):
            yield StructModel.unpack_from(fmt, buffer, o)


# ------------------------------------------------------------------------------------------------
# math model
class MathModel:
    def __getattr__(self, name):
        return getattr(_math, name)

    @staticmethod
    def ceil(x):
        if _ri(x, (SymFrac, SymInt, SymFloat)):
            return x.__ceil__()
        return _math.ceil(x)

    @staticmethod
    def floor(x):
        if _ri(x, (SymFrac, SymInt, SymFloat)):
            return x.__floor__()
        return _math.floor(x)

    @staticmethod
    def log2(x):
        if _issym(x):
            raise Unsupported("log2 of symbolic value")
        return _math.log2(x)

    @staticmethod
    def log(x, *a):
        if _issym(x):
            raise Unsupported("log of symbolic value")
        return _math.log(x, *a)


MATH = MathModel()


# ------------------------------------------------------------------------------------------------
# CRC model: bit-exact rendering of crcmod's generic algorithm (validated against crcmod in
# harness/selftest).  Never multiplies: poly & (0 - top).
def _bv(x, w):
    """unsigned w-bit z3 term of int / SymInt (value assumed within range)."""
    if _ri(x, SymInt):
        e = x.e
        if not z3.is_bv(e):
            raise Unsupported("CRC of Int back-end value")
        s = e.size()
        if s > w and x.lo >= 0 and x.hi < (1 << w):
            # peel zero extensions so that a value fed back (CRC continuation) keeps its original term
            if z3.is_app_of(e, z3.Z3_OP_ZERO_EXT) and e.arg(0).size() == w:
                return e.arg(0)
            if z3.is_app_of(e, z3.Z3_OP_CONCAT) and e.num_args() == 2 and z3.is_bv_value(e.arg(0)) \
                    and e.arg(0).as_long() == 0 and e.arg(1).size() == w:
                return e.arg(1)
        return z3.Extract(w - 1, 0, e) if s >= w else z3.ZeroExt(w - s, e) if x.lo >= 0 else z3.SignExt(w - s, e)
    return z3.BitVecVal(x, w)


def _reflect(v, width):
    r = 0
    for i in range(width):
        if v >> i & 1:
            r |= 1 << (width - 1 - i)
    return r


def crc_generic(data, width, poly, init, rev, xor_out):
    """CRC of byte items (ints/SymInts).  poly without the top bit; init is the *raw register*
    start value (crcmod semantics: mkCrcFun(initCrc) is xor-ed with xorOut first)."""
    items = items_of(data)
    if not any(_issym(b) for b in items) and not _issym(init):
        # concrete: plain python
        crc = init
        mask = (1 << width) - 1
        if rev:
            rp = _reflect(poly, width)
            for b in items:
                crc ^= b
                for _ in range(8):
                    crc = (crc >> 1) ^ (rp if crc & 1 else 0)
        else:
            for b in items:
                crc ^= b << (width - 8)
                for _ in range(8):
                    crc = ((crc << 1) & mask) ^ (poly if crc >> (width - 1) & 1 else 0)
        return (crc ^ xor_out) & mask
    crc = _bv(init, width)
    wt = getattr(init, "w", 0)
    if rev:
        rp = z3.BitVecVal(_reflect(poly, width), width)
        for b in items:
            wt += 20
            crc = crc ^ z3.ZeroExt(width - 8, _bv(b, 8))
            for _ in range(8):
                low = z3.Extract(0, 0, crc)
                m = z3.Concat(*([low] * width)) if width > 1 else low
                crc = z3.LShR(crc, 1) ^ (rp & m)
    else:
        pv = z3.BitVecVal(poly, width)
        for b in items:
            wt += 20
            crc = crc ^ z3.Concat(_bv(b, 8), z3.BitVecVal(0, width - 8))
            for _ in range(8):
                top = z3.Extract(width - 1, width - 1, crc)
                m = z3.Concat(*([top] * width))
                crc = (crc << 1) ^ (pv & m)
    if xor_out:
        crc = crc ^ z3.BitVecVal(xor_out, width)
    return mkint(z3.ZeroExt(1, crc), 0, (1 << width) - 1, wt)


def mkCrcFun(poly, initCrc=~0, rev=True, xorOut=0):
    """Model of crcmod.mkCrcFun / crcmod.predefined semantic."""
    width = poly.bit_length() - 1
    mask = (1 << width) - 1
    p = poly & mask
    ic = initCrc
    if not (_issym(ic) and ic.lo is not None and ic.lo >= 0 and ic.hi <= mask):
        ic = ic & mask
    init_reg = (ic ^ xorOut) if xorOut else ic  # crcmod: crc = xorOut ^ initCrc before the loop

    def fun(data, crc=None):
        reg = init_reg if crc is None else ((crc & mask) ^ xorOut)
        return crc_generic(data, width, p, reg, rev, xorOut)
    fun.__symx_crc__ = (width, p, init_reg, rev, xorOut)
    return fun


class CrcmodModel:
    mkCrcFun = staticmethod(mkCrcFun)


def binascii_crc32(data, crc=0):
    if _ri(data, (SymBytes, SymView)) and not SymBytes(items_of(data)).is_concrete():
        if _issym(crc):
            raise Unsupported("symbolic crc32 seed")
        return crc_generic(data, 32, 0x04C11DB7, (crc ^ 0xFFFFFFFF) & 0xFFFFFFFF, True, 0xFFFFFFFF)
    import binascii
    return binascii.crc32(bytes(items_of(data)), crc)


# ------------------------------------------------------------------------------------------------
SHIM = dict(vars(builtins))
SHIM.update(
    isinstance=sx_isinstance, issubclass=sx_issubclass, int=sx_int, bool=sx_bool, bytes=sx_bytes,
    bytearray=sx_bytearray, memoryview=sx_memoryview, len=sx_len, abs=sx_abs, max=sx_max, min=sx_min,
    sum=sx_sum, divmod=sx_divmod, pow=sx_pow, round=sx_round, hex=sx_hex, bin=sx_bin, oct=sx_oct,
    sorted=sx_sorted, set=sx_set, sx_truth_=sx_truth, any=sx_any, all=sx_all, sx_concrete_=lambda x: x.__index__() if _issym(x) else x, sx_contains_=sx_contains, sx_getitem_=sx_getitem, sx_join_=sx_join,
    sx_real_int_=int, sx_real_str_=str, sx_real_bytes_=bytes, sx_real_float_=float, sx_real_bool_=bool,
    sx_real_bytearray_=bytearray,
)

"""Harness framework: symbolic / concrete environments, exploration driver, verdicts.

A harness is a python module in /verif/harness with

    PROPERTY = "C20"; NAME = "align"; LOGIC = "int" | "bv"
    ENCODES = ["spsdk.utils.misc.align", ...]          # real functions executed symbolically
    BOUNDS = "..." ; OUTSIDE = "..." ; STUBS = [...]
    def setup(symbolic): ...                            # import spsdk (after the loader is installed)
    def cases(tier): -> list of JSON-able case dicts (each with an "id")
    def run(env, case): ...                             # the harness body, runs in BOTH modes

The same `run` is executed (a) symbolically, once per path, with proxies from SymEnv, and
(b) concretely on the unmodified spsdk modules (no loader, no shims, real struct/crc/crypto) with
inputs taken from a solver model - to validate the engine on explored paths and to replay every
counterexample before it is reported.
"""
from __future__ import annotations

import hashlib
import json
import os
import random
import signal
import sys
import time
import traceback

INCONCLUSIVE_EXIT = 3


class CaseTimeout(BaseException):
    pass


class ConcreteMismatch(Exception):
    pass


# ------------------------------------------------------------------------------------------------
def enc_val(v):
    if isinstance(v, (bytes, bytearray)):
        return "hex:" + bytes(v).hex()
    if isinstance(v, (list, tuple)):
        return [enc_val(x) for x in v]
    if isinstance(v, bool):
        return bool(v)
    if isinstance(v, int):
        return int(v)
    if v is None or isinstance(v, (str, float)):
        return v
    if isinstance(v, dict):
        return {str(k): enc_val(x) for k, x in v.items()}
    return repr(v)


def dec_val(v):
    if isinstance(v, str) and v.startswith("hex:"):
        return bytes.fromhex(v[4:])
    if isinstance(v, list):
        return [dec_val(x) for x in v]
    return v


# ------------------------------------------------------------------------------------------------
class BaseEnv:
    symbolic = False

    def __init__(self):
        self.trace = []      # [(label, ok_bool)] obligations reached on this path, in order
        self.observed = {}   # name -> value (symbolic: proxy, concrete: value)
        self.notes = []

    def note(self, s):
        self.notes.append(s)


class ConcreteEnv(BaseEnv):
    """Inputs come from a dict (a solver model); obligations are evaluated as plain python."""
    symbolic = False

    def __init__(self, inputs):
        super().__init__()
        self.inputs = {k: dec_val(v) for k, v in inputs.items()}
        self.failed = []
        self.defaulted = []

    def _get(self, name, default=None):
        if name not in self.inputs:
            # created after the point the model was taken (e.g. after a failed obligation): any value will do
            self.defaulted.append(name)
            return default
        return self.inputs[name]

    def int(self, name, lo, hi):
        v = self._get(name, 0 if (lo is None or lo <= 0) and (hi is None or hi >= 0) else lo)
        if (lo is not None and v < lo) or (hi is not None and v > hi):
            raise ConcreteMismatch(f"input {name}={v} outside [{lo},{hi}]")
        return v

    def bytes(self, name, n):
        v = self._get(name, bytes(n))
        if len(v) != n:
            raise ConcreteMismatch(f"input {name} has length {len(v)} != {n}")
        return v

    def bool(self, name):
        return bool(self._get(name, False))

    def choice(self, name, n):
        return self.int(name, 0, n - 1)

    def assume(self, cond):
        if not cond:
            raise ConcreteMismatch("assumption false on concrete replay")

    def prove(self, cond, label):
        ok = bool(cond)
        self.trace.append((label, ok))
        if not ok:
            self.failed.append(label)
        return ok

    def prove_eq(self, a, b, label):
        return self.prove(bytes(a) == bytes(b) if isinstance(a, (bytes, bytearray)) else a == b, label)

    def satisfiable(self, cond, label):
        """existential obligation: holds when the condition CAN be true (concretely: is true on this run)"""
        return self.prove(cond, label)

    def observe(self, name, value):
        self.observed[name] = enc_val(value)

    def cover(self, label):
        self.trace.append(("cover:" + label, True))

    # logic helpers (same API in both environments)
    And = staticmethod(lambda *xs: all(bool(x) for x in xs))
    Or = staticmethod(lambda *xs: any(bool(x) for x in xs))
    Not = staticmethod(lambda x: not x)
    Iff = staticmethod(lambda a, b: bool(a) == bool(b))
    Implies = staticmethod(lambda a, b: (not a) or bool(b))
    If = staticmethod(lambda c, a, b: a if c else b)
    from_bytes = staticmethod(lambda data, order="big", signed=False: int.from_bytes(bytes(data), order, signed=signed))

    def bytes_eq(self, a, b):
        return bytes(a) == bytes(b)

    len = staticmethod(len)

    def is_true(self, cond):
        return bool(cond)


class SymEnv(BaseEnv):
    symbolic = True

    def __init__(self, ctx):
        super().__init__()
        self.ctx = ctx
        self.violations = []  # (label, inputs)
        self.held = 0

    def int(self, name, lo, hi):
        from .core import var_int
        v = var_int(name, lo, hi)
        self.ctx.inputs[name] = v
        return v

    def bytes(self, name, n):
        from .sbytes import var_bytes
        v = var_bytes(name, n)
        self.ctx.inputs[name] = v
        return v

    def bool(self, name):
        from .core import var_int
        v = var_int(name, 0, 1)
        self.ctx.inputs[name] = v
        return v != 0

    def choice(self, name, n):
        from .core import var_int
        v = var_int(name, 0, n - 1)
        self.ctx.inputs[name] = v
        return v.__index__()

    def assume(self, cond):
        from .core import SymBool, SymInt
        if isinstance(cond, SymInt):
            cond = cond != 0
        if isinstance(cond, SymBool):
            self.ctx.assume(cond.e)
        elif not cond:
            from .core import PathAbort
            raise PathAbort()

    def model_inputs(self, m):
        import z3
        from .core import SymBool, SymInt, _lit
        from .sbytes import SymBytes

        def ev(x):
            if isinstance(x, SymInt):
                return _lit(m.eval(x.e, model_completion=True))
            if isinstance(x, SymBool):
                return bool(_lit(m.eval(x.e, model_completion=True)))
            if isinstance(x, SymBytes):
                return bytes(ev(i) & 0xFF for i in x.items)
            if isinstance(x, (list, tuple)):
                return [ev(i) for i in x]
            return x
        return {k: enc_val(ev(v)) for k, v in self.ctx.inputs.items()}

    def prove(self, cond, label):
        """Obligation: pc => cond.  sat(pc /\\ not cond) is a counterexample candidate."""
        import z3
        from .core import SymBool, SymInt
        ctx = self.ctx
        if isinstance(cond, SymInt):
            cond = cond != 0
        if not isinstance(cond, SymBool):
            ok = bool(cond)
            self.trace.append((label, ok))
            if ok:
                self.held += 1
                ctx.ensure_model()  # reachability twin: the site is reached by a feasible path
            else:
                m = ctx.ensure_model()
                self.violations.append((label, self.model_inputs(m)))
            return ok
        r, m = ctx.check(z3.Not(cond.e))
        if r == "unsat":
            ctx.ensure_model()
            self.trace.append((label, True))
            self.held += 1
            return True
        self.trace.append((label, False))
        self.violations.append((label, self.model_inputs(m)))
        return False

    def satisfiable(self, cond, label):
        """existential obligation: pc /\\ cond must be satisfiable; unsat is the violation"""
        from .core import SymBool, SymInt
        ctx = self.ctx
        if isinstance(cond, SymInt):
            cond = cond != 0
        if not isinstance(cond, SymBool):
            ok = bool(cond)
        else:
            r, m = ctx.check(cond.e)
            ok = r == "sat"
        self.trace.append((label, ok))
        if ok:
            self.held += 1
        else:
            self.violations.append((label, self.model_inputs(ctx.ensure_model())))
        return ok

    def prove_eq(self, a, b, label):
        from .sbytes import SymBytes, items_of
        if isinstance(a, (SymBytes, bytes, bytearray)) or isinstance(b, (SymBytes, bytes, bytearray)):
            return self.prove(SymBytes(items_of(a)).eq_term(b), label)
        return self.prove(a == b, label)

    def observe(self, name, value):
        self.observed[name] = value

    def cover(self, label):
        self.trace.append(("cover:" + label, True))

    @staticmethod
    def And(*xs):
        from .core import And
        return And(*xs)

    @staticmethod
    def Or(*xs):
        from .core import Or
        return Or(*xs)

    @staticmethod
    def Not(x):
        from .core import Not
        return Not(x)

    @staticmethod
    def Iff(a, b):
        import z3
        from .core import _tobool, mkbool
        return mkbool(_tobool(a) == _tobool(b))

    @staticmethod
    def Implies(a, b):
        from .core import Implies
        return Implies(a, b)

    @staticmethod
    def If(c, a, b):
        from .core import If, SymBool
        if not isinstance(c, SymBool):
            return a if c else b
        return If(c, a, b)

    @staticmethod
    def from_bytes(data, order="big", signed=False):
        from .sbytes import from_bytes
        return from_bytes(data, order, signed=signed)

    @staticmethod
    def len(o):
        from .shims import sx_len
        return sx_len(o)

    def bytes_eq(self, a, b):
        from .sbytes import SymBytes, items_of
        return SymBytes(items_of(a)).eq_term(b)

    def is_true(self, cond):
        """Fork on cond (harness-level case split)."""
        return bool(cond)


# ------------------------------------------------------------------------------------------------
def _outcome_sig(trace, outcome):
    return {"labels": [l for l, _ in trace], "outcome": outcome}


def explore_case(hmod, case, opts):
    """Explore every path of hmod.run on `case`.  Returns a JSON-able result dict."""
    from . import core
    from .core import CTX, PathAbort, Unsupported, BoundsExceeded, SolverUnknown
    t0 = time.time()
    res = {
        "case": case.get("id", "?"), "paths": 0, "aborted": 0, "queries": 0, "solver_s": 0.0,
        "held": 0, "violations": [], "inconclusive": [], "samples": [], "reached": {}, "decisions": 0,
        "max_query_s": 0.0,
    }
    CTX.logic = getattr(hmod, "LOGIC", "bv")
    CTX.query_timeout_ms = opts.get("query_timeout_ms", 60000)
    CTX.max_split = opts.get("max_split", 256)
    CTX.pending = [([], None)]
    CTX.queries = 0
    CTX.solver_time = 0.0
    CTX.max_query_s = 0.0
    max_paths = opts.get("max_paths", 20000)
    deadline = t0 + opts.get("case_timeout_s", 600)
    rnd = random.Random(opts.get("seed", 0))
    nsample = opts.get("samples_per_case", 2)
    seen_viol = set()
    try:
        while CTX.pending:
            if res["paths"] >= max_paths:
                res["inconclusive"].append(f"bounds_exceeded: more than {max_paths} paths")
                break
            if time.time() > deadline:
                res["inconclusive"].append("case timeout")
                break
            prefix, model = CTX.pending.pop()
            CTX.pc = []
            CTX.decisions = list(prefix)
            CTX.pos = 0
            CTX.model = None
            CTX.uses_fp = False
            CTX.uses_uf = False
            CTX.path_state = {}
            CTX.prefix_model = model
            CTX.prefix_len = len(prefix) if prefix else -1
            CTX.inputs = {}
            CTX.nvars = 0
            CTX.tags = {}
            CTX.active = True
            env = SymEnv(CTX)
            outcome = "ok"
            try:
                hmod.run(env, case)
            except PathAbort:
                res["aborted"] += 1
                CTX.active = False
                continue
            except (Unsupported, BoundsExceeded, SolverUnknown) as e:
                tb = traceback.extract_tb(e.__traceback__)
                where = [f"{os.path.basename(f.filename)}:{f.lineno}" for f in tb[-4:]]
                res["inconclusive"].append(f"{type(e).__name__}: {e} @ {' < '.join(reversed(where))}")
                res["paths"] += 1
                CTX.active = False
                # obligations that already failed on this path are counterexample candidates in their own right (they
                # are replayed on the unmodified code before anything is reported)
                for lbl, inputs in env.violations:
                    if lbl in seen_viol and len(res["violations"]) >= 8:
                        continue
                    seen_viol.add(lbl)
                    res["violations"].append({"label": lbl, "inputs": inputs, "notes": env.notes[-2:],
                                              "sig": _outcome_sig(env.trace, "ok")})
                if len(res["inconclusive"]) > 20:
                    break
                continue
            except CaseTimeout:
                res["inconclusive"].append("case timeout (alarm)")
                break
            except Exception as e:  # escaped the harness: implicit obligation "no undeclared exception"
                outcome = "exc:" + type(e).__name__
                try:
                    m = CTX.ensure_model()
                    tb = traceback.extract_tb(e.__traceback__)
                    where = [f"{os.path.basename(f.filename)}:{f.lineno}" for f in tb[-3:]]
                    env.violations.append((f"unexpected:{type(e).__name__}", env.model_inputs(m)))
                    env.notes.append(f"{type(e).__name__}: {str(e)[:200]} @ {' < '.join(reversed(where))}")
                except PathAbort:
                    res["aborted"] += 1
                    continue
            finally:
                CTX.active = False
            res["paths"] += 1
            res["held"] += env.held
            res["decisions"] = max(res["decisions"], len(CTX.decisions))
            for lbl, ok in env.trace:
                res["reached"][lbl] = res["reached"].get(lbl, 0) + 1
            for lbl, inputs in env.violations:
                key = lbl
                if key in seen_viol and len(res["violations"]) >= 8:
                    continue
                seen_viol.add(key)
                res["violations"].append({"label": lbl, "inputs": inputs, "notes": env.notes[-2:],
                                          "sig": _outcome_sig(env.trace, outcome)})
            if not env.violations:
                # reservoir-sample a few complete paths for validation against the implementation
                take = len(res["samples"]) < nsample or rnd.random() < nsample / max(res["paths"], 1)
                if take:
                    try:
                        m = CTX.ensure_model()
                        obs = {}
                        from .core import _lit, SymInt, SymBool
                        from .sbytes import SymBytes
                        inputs = env.model_inputs(m)
                        for k, v in env.observed.items():
                            obs[k] = enc_val(_eval_obs(v, m))
                        s = {"inputs": inputs, "sig": _outcome_sig(env.trace, outcome), "observed": obs}
                        if len(res["samples"]) < nsample:
                            res["samples"].append(s)
                        else:
                            res["samples"][rnd.randrange(nsample)] = s
                    except (PathAbort, SolverUnknown):
                        pass
    except CaseTimeout:
        res["inconclusive"].append("case timeout (alarm)")
    res["queries"] = CTX.queries
    res["solver_s"] = round(CTX.solver_time, 3)
    res["max_query_s"] = round(CTX.max_query_s, 3)
    res["wall_s"] = round(time.time() - t0, 3)
    CTX.pending = []
    return res


def _eval_obs(v, m):
    from .core import _lit, SymInt, SymBool
    from .sbytes import SymBytes
    if isinstance(v, SymInt):
        return _lit(m.eval(v.e, model_completion=True))
    if isinstance(v, SymBool):
        return bool(_lit(m.eval(v.e, model_completion=True)))
    if isinstance(v, SymBytes):
        return bytes(_eval_obs(i, m) & 0xFF for i in v.items)
    if isinstance(v, (list, tuple)):
        return [_eval_obs(i, m) for i in v]
    if isinstance(v, dict):
        return {k: _eval_obs(x, m) for k, x in v.items()}
    return v


# ------------------------------------------------------------------------------------------------
def run_concrete(hmod, case, inputs):
    """Run the harness body on the unmodified code.  Returns dict(sig, failed, observed, error)."""
    env = ConcreteEnv(inputs)
    outcome = "ok"
    err = None

    def _alarm(signum, frame):
        raise TimeoutError("no termination within the replay time limit")
    signal.signal(signal.SIGALRM, _alarm)
    signal.alarm(int(getattr(hmod, "CONCRETE_TIMEOUT_S", 60)))
    try:
        try:
            hmod.run(env, case)
        finally:
            signal.alarm(0)
    except ConcreteMismatch as e:
        return {"error": f"mismatch: {e}", "sig": None, "failed": [], "observed": {}}
    except Exception as e:
        outcome = "exc:" + type(e).__name__
        err = f"{type(e).__name__}: {str(e)[:300]}"
        env.failed.append(f"unexpected:{type(e).__name__}")
    return {"error": None, "sig": _outcome_sig(env.trace, outcome), "failed": env.failed,
            "observed": env.observed, "exc": err}

"""Stub pair for number rendering: a rendered symbolic integer is a real `str` (so isinstance checks and dict keys work)
that remembers the integer; parsing such a string returns it.  Contract: CPython's formatting and int() parsing are
mutually inverse (trusted, stated in the harness' STUBS).

Two renderings are told apart because SPSDK's parsers treat them differently:
  * prefixed ("0x1F", digits=None): value_to_int and int(x, 16) give the integer back;
  * bare     ("001F", digits=n):    the text a `config_as_hexstring` register is stored as.  int(x, 16) gives the
    integer back; value_to_int reads such a text by its own grammar (decimal when every digit is 0..9, binary after a
    leading "0B", otherwise not a number) - `bare_value_to_int` is the loop-free summary of exactly that, and its
    equivalence with the real value_to_int on rendered strings is proved in the C11 run (cases hexsummary/*).
"""


class HexNum(str):
    def __new__(cls, v, text=None, digits=None):
        s = str.__new__(cls, text or ("0x<sym>" if digits is None else "<sym-bare-hex>"))
        s.sym = v
        s.digits = digits
        return s

    def __radd__(self, other):
        # "0x" + bare digits: the prefixed text of the same number (load_hex_string does exactly this)
        if other in ("0x", "0X") and self.digits is not None:
            return HexNum(self.sym)
        from .core import Unsupported
        raise Unsupported("string concatenation with a rendered symbolic number")

    def __add__(self, other):
        from .core import Unsupported
        raise Unsupported("string concatenation with a rendered symbolic number")


def bare_value_to_int(v, n, error):
    """what spsdk.utils.misc.value_to_int returns for the text f"{v:0{n}X}" (0 <= v < 16**n); raises `error` where it
    raises SPSDKError.  Works on plain and on symbolic integers (every `if` is a fork)."""
    d = [(v // (16 ** i)) % 16 for i in range(n)]          # d[0] = last character
    if n >= 3 and d[n - 1] == 0 and d[n - 2] == 11:          # "0B...": binary prefix of the grammar
        val = 0
        for i in range(n - 3, -1, -1):
            if d[i] > 1:
                raise error
            val = val * 2 + d[i]
        return val
    val = 0
    for i in range(n - 1, -1, -1):
        if d[i] > 9:
            raise error
        val = val * 10 + d[i]
    return val


def hex_value_to_int(h, error):
    """value_to_int on a HexNum"""
    if h.digits is None:
        return h.sym
    return bare_value_to_int(h.sym, h.digits, error)


def hex_int(h, base):
    """int(h, base) on a HexNum"""
    if base == 16 or (base == 0 and h.digits is None):
        return h.sym
    if h.digits is None:
        raise ValueError("invalid literal for int(): prefixed hexadecimal text")
    if base == 10:
        d = [(h.sym // (16 ** i)) % 16 for i in range(h.digits)]
        val = 0
        for i in range(h.digits - 1, -1, -1):
            if d[i] > 9:
                raise ValueError("invalid literal for int() with base 10")
            val = val * 10 + d[i]
        return val
    from .core import Unsupported
    raise Unsupported(f"int(<rendered number>, {base})")


def install_value_to_int():
    """value_to_int / int() accept a HexNum everywhere in the loaded spsdk modules."""
    from . import loader, shims
    import spsdk.utils.misc as M
    import spsdk.exceptions as EX
    real = M.value_to_int
    if getattr(real, "__symx_hexnum__", False):
        return

    def value_to_int(value, default=None):
        if isinstance(value, HexNum):
            try:
                return hex_value_to_int(value, EX.SPSDKError("Invalid input number"))
            except EX.SPSDKError:
                if default is not None:
                    return default
                raise
        return real(value, default)
    value_to_int.__symx_hexnum__ = True
    value_to_int.__wrapped__ = real
    loader.patch_everywhere(real, value_to_int)
    real_int = shims.sx_int.__new__
    if getattr(real_int, "__symx_hexnum__", False):
        return

    def int_new(cls, x=0, *a, **k):
        if isinstance(x, HexNum):
            return hex_int(x, a[0] if a else k.get("base", 10))
        return real_int(cls, x, *a, **k)
    int_new.__symx_hexnum__ = True
    shims.sx_int.__new__ = int_new


def install_format_value():
    from . import loader
    from .core import SymInt
    import spsdk.utils.misc as M
    real = M.format_value
    if getattr(real, "__symx_hexnum__", False):
        return

    def format_value(value, size, delimiter="_", use_prefix=True):
        if isinstance(value, SymInt):
            return HexNum(value)
        return real(value, size, delimiter, use_prefix)
    format_value.__symx_hexnum__ = True
    loader.patch_everywhere(real, format_value)

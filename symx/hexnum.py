"""Stub pair for number rendering: a rendered symbolic integer is a real `str` (so isinstance checks and dict keys work)
that remembers the integer; parsing such a string returns it.  Contract: CPython's formatting and int() parsing are
mutually inverse (trusted, stated in the harness' STUBS)."""


class HexNum(str):
    def __new__(cls, v, text="0x<sym>"):
        s = str.__new__(cls, text)
        s.sym = v
        return s


def install_value_to_int():
    """value_to_int / int() accept a HexNum everywhere in the loaded spsdk modules."""
    from . import loader, shims
    import spsdk.utils.misc as M
    real = M.value_to_int
    if getattr(real, "__symx_hexnum__", False):
        return

    def value_to_int(value, default=None):
        if isinstance(value, HexNum):
            return value.sym
        return real(value, default)
    value_to_int.__symx_hexnum__ = True
    loader.patch_everywhere(real, value_to_int)
    real_int = shims.sx_int.__new__

    def int_new(cls, x=0, *a, **k):
        if isinstance(x, HexNum):
            return x.sym
        return real_int(cls, x, *a, **k)
    shims.sx_int.__new__ = int_new


def install_format_value():
    from . import loader
    from .core import SymInt
    import spsdk.utils.misc as M
    real = M.format_value
    if getattr(real, "__symx_hexnum__", False):
        return

    def format_value(value, size, delimiter="_", use_prefix=True):
        if isinstance(value, SymInt):
            return HexNum(value)
        return real(value, size, delimiter, use_prefix)
    format_value.__symx_hexnum__ = True
    loader.patch_everywhere(real, format_value)

"""Check driver: explores all harness cases of one property in parallel, validates sampled paths
and replays counterexamples on the unmodified code, applies known findings, writes evidence."""
from __future__ import annotations

import argparse
import glob
import hashlib
import importlib
import json
import multiprocessing as mp
import os
import re
import signal
import subprocess
import sys
import tempfile
import time

VERIF = os.path.dirname(os.path.dirname(os.path.abspath(__file__)))
REPO = os.environ.get("SYMX_REPO", "/repo")
INCONCLUSIVE_EXIT = 3


def harness_modules(prop):
    pat = os.path.join(VERIF, "harness", f"{prop.lower()}_*.py")
    return sorted(os.path.splitext(os.path.basename(p))[0] for p in glob.glob(pat))


_HM = {}


def _load(hname, symbolic):
    if hname not in _HM:
        mod = importlib.import_module(f"harness.{hname}")
        mod.setup(symbolic)
        _HM[hname] = mod
    return _HM[hname]


def _alarm(signum, frame):
    from .run import CaseTimeout
    raise CaseTimeout()


def _work(job):
    hname, case, opts = job
    from .run import explore_case
    mod = _HM[hname]
    signal.signal(signal.SIGALRM, _alarm)
    signal.setitimer(signal.ITIMER_REAL, opts.get("case_timeout_s", 600) + 30)
    try:
        r = explore_case(mod, case, opts)
    except BaseException as e:  # engine failure: never a pass
        import traceback
        r = {"case": case.get("id"), "paths": 0, "aborted": 0, "queries": 0, "solver_s": 0, "held": 0,
             "violations": [], "samples": [], "reached": {}, "decisions": 0, "wall_s": 0, "max_query_s": 0,
             "inconclusive": [f"engine error {type(e).__name__}: {e} :: {traceback.format_exc()[-600:]}"]}
    finally:
        signal.setitimer(signal.ITIMER_REAL, 0)
    r["harness"] = hname
    r["case_obj"] = case
    return r


def run_concrete_jobs(jobs):
    """jobs: [{harness, case, inputs}] -> results list, executed in a fresh interpreter WITHOUT the
    symx loader (unmodified spsdk from /repo, real struct/crcmod/cryptography)."""
    if not jobs:
        return []
    d = tempfile.mkdtemp(prefix="symx-", dir=os.environ.get("SYMX_TMP"))
    try:
        jf, of = os.path.join(d, "jobs.json"), os.path.join(d, "out.json")
        json.dump(jobs, open(jf, "w"))
        env = dict(os.environ, PYTHONPATH=f"{REPO}:{VERIF}", PYTHONDONTWRITEBYTECODE="1")
        p = subprocess.run([sys.executable, "-m", "symx.concrete", jf, of], env=env, cwd=VERIF,
                           capture_output=True, text=True, timeout=3600)
        if p.returncode != 0 or not os.path.exists(of):
            raise RuntimeError("concrete runner failed: " + p.stderr[-2000:])
        return json.load(open(of))
    finally:
        import shutil
        shutil.rmtree(d, ignore_errors=True)


def load_known():
    p = os.path.join(VERIF, "known_findings.json")
    if not os.path.exists(p):
        return []
    return json.load(open(p)).get("findings", [])


def match_known(known, prop, hname, case_id, label, inputs):
    for k in known:
        if k["property"] != prop or k["harness"] != hname:
            continue
        if not re.fullmatch(k.get("label_re", ".*"), label):
            continue
        if not re.fullmatch(k.get("case_re", ".*"), case_id):
            continue
        w = k.get("when")
        if w:
            from .run import dec_val
            try:
                if not eval(w, {"__builtins__": {"len": len, "int": int, "bytes": bytes, "any": any, "all": all}},
                            {"i": {a: dec_val(b) for a, b in inputs.items()}}):
                    continue
            except Exception:
                continue
        return k
    return None


def main(argv=None):
    ap = argparse.ArgumentParser()
    ap.add_argument("prop")
    ap.add_argument("--tier", default=os.environ.get("VERIF_TIER", "quick"))
    ap.add_argument("--only", default=None, help="regex on harness/case id")
    ap.add_argument("--replay", default=None)
    ap.add_argument("-j", type=int, default=int(os.environ.get("SYMX_JOBS", "16")))
    ap.add_argument("--no-evidence", action="store_true")
    ap.add_argument("-v", action="store_true")
    a = ap.parse_args(argv)
    prop = a.prop.upper()
    tier = a.tier if a.tier in ("quick", "thorough") else "quick"
    seed = int(os.environ.get("VERIF_SEED", "0") or 0)
    sys.path.insert(0, VERIF)

    if a.replay:
        return replay_file(a.replay)

    t0 = time.time()
    from . import loader
    loader.install()
    import logging
    logging.disable(logging.CRITICAL)
    import spsdk
    assert spsdk.__file__.startswith(REPO + "/"), spsdk.__file__
    hnames = harness_modules(prop)
    if not hnames:
        print(f"no harness for {prop}")
        return INCONCLUSIVE_EXIT
    jobs = []
    meta = {}
    for hn in hnames:
        mod = _load(hn, True)
        opts = dict(getattr(mod, "OPTS", {}).get(tier, {}))
        opts["seed"] = seed
        cs = mod.cases(tier)
        for c in cs:
            cid = f"{hn}:{c.get('id')}"
            if a.only and not re.search(a.only, cid):
                continue
            jobs.append((hn, c, opts))
        meta[hn] = mod
    # big cases first
    jobs.sort(key=lambda j: -j[1].get("weight", 1))
    results = []
    if a.j <= 1 or len(jobs) <= 1:
        for j in jobs:
            results.append(_work(j))
    else:
        ctx = mp.get_context("fork")
        with ctx.Pool(min(a.j, len(jobs))) as pool:
            for r in pool.imap_unordered(_work, jobs, chunksize=1):
                results.append(r)
                if a.v:
                    print(f"  [{r['harness']}:{r['case']}] paths={r['paths']} q={r['queries']} "
                          f"viol={len(r['violations'])} inc={len(r['inconclusive'])} {r['wall_s']}s", flush=True)
    results.sort(key=lambda r: (r["harness"], str(r["case"])))
    explore_s = time.time() - t0

    # ---- concrete stage: replay counterexamples, validate sampled paths ---------------------------
    cjobs = []
    for r in results:
        for v in r["violations"]:
            cjobs.append({"kind": "cex", "harness": r["harness"], "case": r["case_obj"], "inputs": v["inputs"],
                          "label": v["label"], "sig": v["sig"], "notes": v.get("notes")})
    nval_max = 400 if tier == "quick" else 2000
    vjobs = []
    for r in results:
        for s in r["samples"]:
            vjobs.append({"kind": "val", "harness": r["harness"], "case": r["case_obj"], "inputs": s["inputs"],
                          "sig": s["sig"], "observed": s["observed"]})
    import random
    rnd = random.Random(seed)
    if len(vjobs) > nval_max:
        vjobs = rnd.sample(vjobs, nval_max)
    # cap counterexample replays per (harness,label)
    per, perlabel = {}, {}
    kept = []
    for j in cjobs:
        k = (j["harness"], j["label"], j["case"].get("id"))
        kl = (j["harness"], j["label"])
        per[k] = per.get(k, 0) + 1
        if per[k] <= 1:
            perlabel[kl] = perlabel.get(kl, 0) + 1
            # replays that wait for a non-termination time limit are expensive: keep fewer of them
            if perlabel[kl] <= (3 if "Timeout" in j["label"] else 12):
                kept.append(j)
    cjobs = kept
    outs = run_concrete_jobs(cjobs + vjobs)
    known = load_known()
    reproduced, spurious, known_hits, validated, val_fail = [], [], [], 0, []
    for j, o in zip(cjobs + vjobs, outs):
        if j["kind"] == "cex":
            if o.get("error") is None and j["label"] in o["failed"]:
                k = match_known(known, prop, j["harness"], str(j["case"].get("id")), j["label"], j["inputs"])
                (known_hits if k else reproduced).append((j, o, k))
            else:
                spurious.append((j, o))
        else:
            ok = (o.get("error") is None and not o["failed"] and o["sig"] == j["sig"]
                  and all(o["observed"].get(k) == v for k, v in j["observed"].items()))
            if ok:
                validated += 1
            else:
                val_fail.append((j, o))

    # ---- report ----------------------------------------------------------------------------------
    inconclusive = []
    for r in results:
        for m in r["inconclusive"]:
            inconclusive.append(f"{r['harness']}:{r['case']}: {m}")
    for j, o in spurious:
        inconclusive.append(f"{j['harness']}:{j['case'].get('id')}: counterexample for '{j['label']}' did not replay "
                            f"on the unmodified code ({o.get('error') or o.get('failed')}, exc={o.get('exc')}) "
                            f"inputs={json.dumps(j['inputs'])[:400]}")
    for j, o in val_fail:
        inconclusive.append(f"{j['harness']}:{j['case'].get('id')}: engine/implementation mismatch on a sampled path: "
                            f"sym={j['sig']} {j['observed']} conc={o.get('sig')} {o.get('observed')} err={o.get('error')} "
                            f"failed={o.get('failed')} exc={o.get('exc')} inputs={json.dumps(j['inputs'])[:400]}")
    # reachability: every declared obligation label must be reached by at least one path
    for hn, mod in meta.items():
        must = getattr(mod, "MUST_REACH", None)
        if must and not a.only:
            reached = set()
            for r in results:
                if r["harness"] == hn:
                    reached.update(r["reached"])
            for lbl in must:
                if not any(re.fullmatch(lbl, x) for x in reached):
                    inconclusive.append(f"{hn}: obligation '{lbl}' reached by zero paths (vacuous)")
    printed = set()
    for j, o, k in known_hits:
        key = (k["what"],)
        if key not in printed:
            printed.add(key)
            print(f"KNOWN-FINDING: property={prop} {k['what']}")
    viol_lines = []
    os.makedirs(os.path.join(VERIF, "replays"), exist_ok=True)
    seen = set()
    for j, o, _ in reproduced:
        key = (j["harness"], j["label"])
        if key in seen:
            continue
        seen.add(key)
        body = {"property": prop, "harness": j["harness"], "case": j["case"], "label": j["label"],
                "inputs": j["inputs"], "notes": j.get("notes"), "concrete": {"failed": o["failed"], "exc": o.get("exc")}}
        dig = hashlib.sha256(json.dumps(body, sort_keys=True).encode()).hexdigest()[:12]
        path = os.path.join(VERIF, "replays", f"{prop}-{dig}.json")
        json.dump(body, open(path, "w"), indent=1)
        viol_lines.append(f"VIOLATION property={prop} replay={path}")
        print(f"  violated: {j['harness']}:{j['case'].get('id')} obligation '{j['label']}' "
              f"inputs={json.dumps(j['inputs'])[:300]} exc={o.get('exc')}")
    tot = lambda k: sum(r[k] for r in results)
    paths, queries = tot("paths"), tot("queries")
    obligations = tot("held") + sum(len(r["violations"]) for r in results)
    wall = time.time() - t0
    if not a.no_evidence and not a.only:
        write_evidence(prop, tier, seed, meta, results, validated, len(reproduced), len(known_hits), inconclusive,
                       wall, explore_s, loader, obligations)
    print(f"[{prop}/{tier}] harnesses={len(meta)} cases={len(results)} paths={paths} queries={queries} "
          f"obligations={obligations} held={tot('held')} validated_vs_impl={validated} "
          f"known={len(known_hits)} violations={len(viol_lines)} inconclusive={len(inconclusive)} "
          f"solver={tot('solver_s'):.1f}s wall={wall:.1f}s")
    for m in inconclusive[:30]:
        print("INCONCLUSIVE:", m[:1500])
    for l in viol_lines:
        print(l)
    if viol_lines:
        return 1
    if inconclusive:
        return INCONCLUSIVE_EXIT
    if paths == 0 or obligations == 0:
        print("INCONCLUSIVE: nothing explored")
        return INCONCLUSIVE_EXIT
    return 0


def write_evidence(prop, tier, seed, meta, results, validated, nviol, nknown, inconclusive, wall, explore_s,
                   loader, obligations):
    tot = lambda k: sum(r[k] for r in results)
    enc, bounds, outside, stubs = [], [], [], []
    for hn, mod in meta.items():
        for f in getattr(mod, "ENCODES", []):
            # verify the name resolves in the loaded (real) modules
            parts = f.split(".")
            ok = False
            for i in range(len(parts), 0, -1):
                m = sys.modules.get(".".join(parts[:i]))
                if m is not None:
                    o = m
                    try:
                        for p in parts[i:]:
                            o = getattr(o, p)
                        ok = True
                    except AttributeError:
                        ok = False
                    break
            enc.append(f if ok else f + " (NOT FOUND)")
        bounds.append(f"{hn}: " + str(getattr(mod, "BOUNDS", {}).get(tier, getattr(mod, "BOUNDS", ""))
                                     if isinstance(getattr(mod, "BOUNDS", ""), dict) else getattr(mod, "BOUNDS", "")))
        outside.append(f"{hn}: " + getattr(mod, "OUTSIDE", ""))
        stubs += [f"{hn}: {s}" for s in getattr(mod, "STUBS", [])]
    prefixes = sorted({".".join(f.split(".")[:3]) for f in enc})
    samples = []
    for r in results:
        for s in r["samples"][:1]:
            samples.append({"harness": r["harness"], "case": r["case"], "path_model_inputs": _short(s["inputs"]),
                            "obligations_on_path": s["sig"]["labels"][:12], "outcome": s["sig"]["outcome"]})
        if len(samples) >= 6:
            break
    if not samples:
        samples = [{"note": "no complete path sampled"}]
    nontrivial = sum(1 for r in results for _ in range(1) if r["held"] > 0)
    reached_paths = sum(max(r["reached"].values()) if r["reached"] else 0 for r in results)
    ev = {
        "property_id": prop, "tier": tier, "seed": seed, "level": "model_checking",
        "coverage": {
            "states": max(tot("paths"), 0), "transitions": max(tot("queries"), 0),
            "traces_validated_against_impl": validated,
            "samples": samples,
            "evaluations": tot("paths"),
            "distinct_nontrivial": reached_paths,
            "rule": "one evaluation = one symbolic path (distinct decision vector) of a harness case; a path is "
                    "non-trivial when it reached at least one obligation; counted = max over obligation labels of "
                    "paths reaching it, summed over cases",
            "obligations": obligations, "discharged": tot("held"),
            "cases": len(results), "harnesses": sorted(meta),
            "functions_encoded": enc,
            "source_sha256_16": loader.module_hashes(prefixes),
            "bounds": bounds, "outside_bounds": outside, "stubs": stubs,
            "solver": "z3 %s (python API), fresh non-incremental solver per query" % _z3v(),
            "solver_time_s": round(tot("solver_s"), 2), "explore_wall_s": round(explore_s, 2),
            "max_single_query_s": max([r.get("max_query_s", 0) for r in results] or [0]),
            "paths_aborted_infeasible": tot("aborted"),
            "inconclusive": inconclusive[:50],
            "known_findings_hit": nknown,
            "exhaustive": False,
            "per_case": [{"h": r["harness"], "case": r["case"], "paths": r["paths"], "queries": r["queries"],
                          "held": r["held"], "wall_s": r["wall_s"]} for r in results][:400],
        },
        "assumptions": [
            "verdict is bounded: only the symbolic input space listed under bounds is covered",
            "library leaves are models/stubs (see stubs); struct/int.to_bytes/crc models are validated per run against "
            "the real implementation on sampled paths (traces_validated_against_impl)",
            "z3 is trusted",
        ],
        "wall_s": round(wall, 2), "violations": nviol,
    }
    os.makedirs(os.path.join(VERIF, "evidence"), exist_ok=True)
    json.dump(ev, open(os.path.join(VERIF, "evidence", f"{prop}.json"), "w"), indent=1)


def _short(d):
    out = {}
    for k, v in list(d.items())[:24]:
        out[k] = v if not (isinstance(v, str) and len(v) > 70) else v[:70] + "…"
    if len(d) > 24:
        out["…"] = f"{len(d) - 24} more inputs"
    return out


def _z3v():
    import z3
    return z3.get_version_string()


def replay_file(path):
    body = json.load(open(path))
    outs = run_concrete_jobs([{"kind": "cex", "harness": body["harness"], "case": body["case"], "inputs": body["inputs"]}])
    o = outs[0]
    print(json.dumps(o, indent=1)[:3000])
    if o.get("error") is None and body["label"] in o["failed"]:
        print(f"reproduced: obligation '{body['label']}' fails on the unmodified code")
        return 1
    print("not reproduced")
    return 0


if __name__ == "__main__":
    sys.exit(main())

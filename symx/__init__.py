"""symx - symbolic execution of the real SPSDK sources with z3 (see /verif/DESIGN.md section 2)."""

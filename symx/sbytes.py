"""SymBytes: bytes / bytearray stand-in with a concrete length on each path."""
from __future__ import annotations

import z3

from .core import CTX, SENTINEL, SymBool, SymInt, Unsupported, lift, mkbool, var_int, And

_ri = isinstance


def _issym(x):
    return _ri(x, (SymInt, SymBool))


def _clamp(x, n):
    """slice bound -> the clamped value Python would use (only n+1 different outcomes, so the case split stays small)"""
    if not _issym(x):
        return x
    from .core import SymInt
    if _ri(x, SymInt):
        if bool(x >= n):
            return n
        if bool(x <= -n):
            return -n if n else 0
    return x.__index__()


def _idx(i, n=None):
    if _ri(i, slice):
        if n is not None and (i.step is None or i.step == 1):
            return slice(_clamp(i.start, n), _clamp(i.stop, n), i.step)
        return slice(*(x.__index__() if _issym(x) else x for x in (i.start, i.stop, i.step)))
    return i.__index__() if _issym(i) else i


def items_of(o):
    """list of byte items of anything bytes-like (SymBytes, bytes, bytearray, memoryview, list)."""
    if _ri(o, SymBytes):
        return o.items
    if _ri(o, (bytes, bytearray, memoryview)):
        return list(bytes(o))
    if _ri(o, SymView):
        return o.items
    return list(o)


class SymBytes:
    __slots__ = ("items", "mutable")

    def __init__(self, items=(), mutable=False):
        self.items = list(items)
        self.mutable = mutable

    # -- construction helpers -------------------------------------------------------------------
    @staticmethod
    def make(items, mutable=False):
        """Immutable results decay to real bytes when every item is concrete."""
        items = list(items)
        if not mutable:
            for x in items:
                if _issym(x):
                    return SymBytes(items, False)
            return bytes(items)
        return SymBytes(items, True)

    def is_concrete(self):
        return not any(_issym(x) for x in self.items)

    def concrete(self):
        if not self.is_concrete():
            raise Unsupported("symbolic bytes reaching C code")
        return bytes(self.items)

    def __buffer__(self, flags):  # python >= 3.12: concrete content may flow into C code
        return memoryview(self.concrete())

    # -- container protocol ---------------------------------------------------------------------
    def __len__(self):
        return len(self.items)

    def __bool__(self):
        return len(self.items) > 0

    def __iter__(self):
        return iter(self.items)

    def __getitem__(self, i):
        i = _idx(i, len(self.items))
        if _ri(i, slice):
            return SymBytes.make(self.items[i], self.mutable)
        return self.items[i]

    def __setitem__(self, i, v):
        if not self.mutable:
            raise TypeError("'bytes' object does not support item assignment")
        i = _idx(i)
        if _ri(i, slice):
            self.items[i] = items_of(v)
        else:
            if not _issym(v) and not 0 <= v <= 255:
                raise ValueError("byte must be in range(0, 256)")
            self.items[i] = v

    def __delitem__(self, i):
        if not self.mutable:
            raise TypeError("'bytes' object doesn't support item deletion")
        del self.items[_idx(i)]

    def __add__(self, o):
        if not _ri(o, (SymBytes, bytes, bytearray, memoryview, SymView)):
            return NotImplemented
        return SymBytes.make(self.items + items_of(o), self.mutable)

    def __radd__(self, o):
        if not _ri(o, (bytes, bytearray, memoryview)):
            return NotImplemented
        return SymBytes.make(list(bytes(o)) + self.items, _ri(o, bytearray))

    def __iadd__(self, o):
        if self.mutable:
            self.items.extend(items_of(o))
            return self
        return self.__add__(o)

    def __mul__(self, n):
        n = _idx(n)
        return SymBytes.make(self.items * n, self.mutable)

    __rmul__ = __mul__

    def __contains__(self, x):
        if _ri(x, (int, SymInt)):
            for it in self.items:
                if x == it:
                    return True
            return False
        return self.find(x) >= 0

    def eq_term(self, o):
        """SymBool/bool for equality (non forking)."""
        oi = items_of(o)
        if len(oi) != len(self.items):
            return False
        conj = []
        for a, b in zip(self.items, oi):
            if _issym(a) or _issym(b):
                r = lift(a) == b
                if r is False:
                    return False
                if r is not True:
                    conj.append(r)
            elif a != b:
                return False
        if not conj:
            return True
        return And(*conj)

    def __eq__(self, o):
        if not _ri(o, (SymBytes, bytes, bytearray, memoryview, SymView)):
            return NotImplemented
        return self.eq_term(o)

    def __ne__(self, o):
        if not _ri(o, (SymBytes, bytes, bytearray, memoryview, SymView)):
            return NotImplemented
        r = self.eq_term(o)
        if _ri(r, bool):
            return not r
        return mkbool(z3.Not(r.e))

    def __hash__(self):
        if self.is_concrete():
            return hash(bytes(self.items))
        raise Unsupported("hash of symbolic bytes")

    def __repr__(self):
        if self.is_concrete():
            return repr(bytes(self.items))
        return SENTINEL

    __str__ = __repr__

    def __format__(self, spec):
        return SENTINEL

    def __deepcopy__(self, memo):
        return SymBytes(self.items, self.mutable)

    def __copy__(self):
        return SymBytes(self.items, self.mutable)

    def __reduce__(self):
        if self.is_concrete():
            return (bytearray if self.mutable else bytes, (bytes(self.items),))
        raise Unsupported("pickling symbolic bytes")

    # -- bytes API ------------------------------------------------------------------------------
    def copy(self):
        return SymBytes(self.items, self.mutable)

    def hex(self, *a):
        if self.is_concrete():
            return bytes(self.items).hex(*a)
        return SENTINEL

    def decode(self, *a, **k):
        return self.concrete().decode(*a, **k)

    def reverse(self):
        self.items.reverse()

    def extend(self, o):
        self.items.extend(items_of(o))

    def append(self, v):
        self.items.append(v)

    def clear(self):
        self.items.clear()

    def startswith(self, p, *a):
        if a:
            return self[slice(*a)].startswith(p)
        pi = items_of(p)
        if len(pi) > len(self.items):
            return False
        return bool(SymBytes(self.items[: len(pi)]).eq_term(pi))

    def endswith(self, p):
        pi = items_of(p)
        if len(pi) > len(self.items):
            return False
        return bool(SymBytes(self.items[len(self.items) - len(pi):]).eq_term(pi)) if pi else True

    def find(self, sub, start=0, end=None):
        si = [sub] if _ri(sub, (int, SymInt)) else items_of(sub)
        n = len(self.items) if end is None else min(_idx(end), len(self.items))
        start = _idx(start)
        for p in range(start, n - len(si) + 1):
            if bool(SymBytes(self.items[p: p + len(si)]).eq_term(si)):
                return p
        return -1

    def index(self, sub, *a):
        r = self.find(sub, *a)
        if r < 0:
            raise ValueError("subsection not found")
        return r

    def count(self, sub):
        si = [sub] if _ri(sub, (int, SymInt)) else items_of(sub)
        if len(si) != 1:
            return self.concrete().count(bytes(si))
        from .core import If
        c = 0
        for it in self.items:
            c = c + If(lift(it) == si[0], 1, 0) if _issym(lift(it) == si[0]) else c + int(bool(it == si[0]))
        return c

    def rstrip(self, chars=None):
        if chars is None:
            return SymBytes.make(self.concrete().rstrip(), self.mutable)
        ci = items_of(chars)
        n = len(self.items)
        while n > 0 and any(bool(self.items[n - 1] == c) for c in ci):
            n -= 1
        return SymBytes.make(self.items[:n], self.mutable)

    def lstrip(self, chars=None):
        if chars is None:
            return SymBytes.make(self.concrete().lstrip(), self.mutable)
        ci = items_of(chars)
        n = 0
        while n < len(self.items) and any(bool(self.items[n] == c) for c in ci):
            n += 1
        return SymBytes.make(self.items[n:], self.mutable)

    def strip(self, chars=None):
        if chars is not None and any(_issym(x) for x in self.items):
            return _LazyStrip(self, chars)
        return self._strip_now(chars)

    def _strip_now(self, chars=None):
        r = self.rstrip(chars)
        return r.lstrip(chars) if _ri(r, SymBytes) else r.lstrip(bytes(items_of(chars)) if chars is not None else None)

    def ljust(self, width, fill=b"\x00"):
        width = _idx(width)
        return SymBytes.make(self.items + items_of(fill) * max(0, width - len(self.items)), self.mutable)

    def rjust(self, width, fill=b"\x00"):
        width = _idx(width)
        return SymBytes.make(items_of(fill) * max(0, width - len(self.items)) + self.items, self.mutable)

    def join(self, parts):
        out = []
        first = True
        for p in parts:
            if not first:
                out.extend(self.items)
            out.extend(items_of(p))
            first = False
        return SymBytes.make(out, self.mutable)

    def split(self, *a, **k):
        return self.concrete().split(*a, **k)

    def replace(self, *a):
        return self.concrete().replace(*a)

    def tobytes(self):
        return SymBytes.make(self.items, False)



class _LazyStrip(SymBytes):
    """bytes.strip(chars) of symbolic content.  Whether anything is left is ONE solver condition (some byte is outside
    `chars`); the stripped content itself (one fork per byte position from either end) is computed only when it is
    looked at.  `not block.strip(b"...")` therefore costs one fork instead of a quadratic number of paths."""

    def __init__(self, src, chars):
        self._src, self._chars, self._val = src, chars, None
        self.mutable = src.mutable

    def _force(self):
        if self._val is None:
            self._val = list(items_of(self._src._strip_now(self._chars)))
        return self._val

    items = property(lambda self: self._force(), lambda self, v: setattr(self, "_val", list(v)))

    def __bool__(self):
        if self._val is not None:
            return len(self._val) > 0
        from .core import And, Or
        ci = items_of(self._chars)
        conds = [And(*[it != c for c in ci]) for it in self._src.items]
        return bool(Or(*conds)) if conds else False


class SymView:
    """memoryview stand-in over a SymBytes (write-through for mutable parents)."""

    def __init__(self, parent, start=0, stop=None):
        self.parent = parent
        self.start = start
        self.stop = len(parent.items) if stop is None else stop

    @property
    def items(self):
        return self.parent.items[self.start: self.stop]

    def __len__(self):
        return self.stop - self.start

    def __iter__(self):
        return iter(self.items)

    def __getitem__(self, i):
        i = _idx(i)
        if _ri(i, slice):
            a, b, st = i.indices(len(self))
            if st != 1:
                raise Unsupported("strided memoryview")
            return SymView(self.parent, self.start + a, self.start + max(a, b))
        if i < 0:
            i += len(self)
        return self.parent.items[self.start + i]

    def __setitem__(self, i, v):
        if not self.parent.mutable:
            raise TypeError("cannot modify read-only memory")
        i = _idx(i)
        if _ri(i, slice):
            a, b, st = i.indices(len(self))
            vi = items_of(v)
            if len(vi) != max(0, b - a):
                raise ValueError("memoryview assignment: lvalue and rvalue have different structures")
            self.parent.items[self.start + a: self.start + b] = vi
        else:
            if i < 0:
                i += len(self)
            self.parent.items[self.start + i] = v

    def __eq__(self, o):
        return SymBytes(self.items).eq_term(o)

    def tobytes(self):
        return SymBytes.make(self.items, False)

    def release(self):
        pass

    def __enter__(self):
        return self

    def __exit__(self, *a):
        return False


def var_bytes(name, n):
    return SymBytes([var_int(f"{name}[{i}]", 0, 255) for i in range(n)], False)


def _slice_of(p):
    """(base, hi, lo) if p is an 8-bit slice Extract(hi, lo, base) possibly wrapped the way to_bytes wraps it"""
    while True:
        if z3.is_app_of(p, z3.Z3_OP_EXTRACT):
            hi, lo = p.params()
            inner = p.arg(0)
            if hi - lo == 7:
                # look through Extract(7,0, ZeroExt/Concat(0, Extract(...)))
                if lo == 0 and (z3.is_app_of(inner, z3.Z3_OP_ZERO_EXT) or (
                        z3.is_app_of(inner, z3.Z3_OP_CONCAT) and inner.num_args() == 2 and z3.is_bv_value(inner.arg(0))
                        and inner.arg(0).as_long() == 0)):
                    cand = inner.arg(inner.num_args() - 1)
                    if cand.size() == 8:
                        p = cand
                        continue
                return inner, hi, lo
        return None


def _rejoin(parts):
    """big-endian list of 8-bit terms that are consecutive slices of ONE base term -> that slice of the base"""
    first = _slice_of(parts[0])
    if first is None:
        return None
    base, hi, lo = first
    top = hi
    for p in parts[1:]:
        sl = _slice_of(p)
        if sl is None or sl[1] != lo - 1 or not z3.eq(sl[0], base):
            return None
        lo = sl[2]
    if lo == 0 and top == base.size() - 1:
        return base
    if lo == 0:
        inner = None
        if z3.is_app_of(base, z3.Z3_OP_ZERO_EXT):
            inner = base.arg(0)
        elif z3.is_app_of(base, z3.Z3_OP_CONCAT) and base.num_args() == 2 and z3.is_bv_value(base.arg(0)) \
                and base.arg(0).as_long() == 0:
            inner = base.arg(1)
        if inner is not None and inner.size() == top + 1:
            return inner
    return z3.Extract(top, lo, base)


def from_bytes(data, byteorder="big", *, signed=False):
    byteorder = getattr(byteorder, "value", byteorder)
    items = items_of(data)
    if not any(_issym(b) for b in items):
        return int.from_bytes(bytes(items), byteorder, signed=signed)
    if byteorder == "little":
        items = items[::-1]
    elif byteorder != "big":
        raise ValueError("byteorder must be either 'little' or 'big'")
    if CTX.logic == "bv":
        # one Concat instead of a shift/or chain keeps terms small
        parts = []
        wt = 0
        for b in items:
            b = lift(b)
            wt += b.w
            parts.append(z3.Extract(7, 0, b.e) if b.e.size() >= 8 else z3.ZeroExt(8 - b.e.size(), b.e))
        e = _rejoin(parts)
        if e is None:
            e = z3.Concat(*parts) if len(parts) > 1 else parts[0]
        n = 8 * len(parts)
        if signed:
            from .core import mkint
            return mkint(e, -(1 << (n - 1)), (1 << (n - 1)) - 1, wt)
        from .core import mkint
        return mkint(z3.ZeroExt(1, e), 0, (1 << n) - 1, wt)
    acc = 0
    for b in items:
        acc = acc * 256 + b
    if signed:
        from .core import If
        n = 8 * len(items)
        acc = If(acc >= (1 << (n - 1)), acc - (1 << n), acc)
    return acc

"""Meta-path loader: executes the real spsdk sources from /repo with replacement builtins and a
small semantics-preserving AST rewrite; patches modelled library leaves by object identity."""
from __future__ import annotations

import ast
import binascii
import hashlib
import importlib.abc
import importlib.machinery
import math
import os
import struct
import sys
import zlib

from . import shims

REPO = os.environ.get("SYMX_REPO", "/repo")
LOADED = {}  # module name -> (path, sha256)
_BUILTIN_BASES = {"int", "str", "bytes", "float", "bool", "bytearray"}


class Rewriter(ast.NodeTransformer):
    """`a in b` -> sx_contains_(a, b);  b[a] (load, non-slice) -> sx_getitem_(b, a);
    X.join(Y) -> sx_join_(X, Y).  Annotations, class bases and decorators are left alone."""

    def visit_Compare(self, node):
        self.generic_visit(node)
        if len(node.ops) == 1 and isinstance(node.ops[0], (ast.In, ast.NotIn)):
            call = ast.Call(ast.Name("sx_contains_", ast.Load()), [node.left, node.comparators[0]], [])
            new = call if isinstance(node.ops[0], ast.In) else ast.UnaryOp(ast.Not(), call)
            return ast.copy_location(new, node)
        return node

    def visit_Subscript(self, node):
        self.generic_visit(node)
        if isinstance(node.ctx, ast.Load) and not isinstance(node.slice, (ast.Slice, ast.Tuple)):
            return ast.copy_location(
                ast.Call(ast.Name("sx_getitem_", ast.Load()), [node.value, node.slice], []), node)
        return node

    def visit_Call(self, node):
        self.generic_visit(node)
        f = node.func
        if (isinstance(f, ast.Attribute) and f.attr == "join" and len(node.args) == 1
                and not node.keywords and not isinstance(node.args[0], ast.Starred)):
            return ast.copy_location(
                ast.Call(ast.Name("sx_join_", ast.Load()), [f.value, node.args[0]], []), node)
        # struct format strings built with f-strings: a symbolic count inside the format is semantic (not logging),
        # so it is made concrete by a complete case split instead of being rendered as a placeholder
        name = f.id if isinstance(f, ast.Name) else (f.attr if isinstance(f, ast.Attribute) else None)
        if name in ("pack", "unpack", "unpack_from", "calcsize", "pack_into", "iter_unpack") and node.args \
                and isinstance(node.args[0], ast.JoinedStr):
            for v in node.args[0].values:
                if isinstance(v, ast.FormattedValue):
                    v.value = ast.copy_location(ast.Call(ast.Name("sx_concrete_", ast.Load()), [v.value], []), v.value)
        return node

    # truth tests: `if obj:` on an object whose python-level __len__ returns a symbolic integer would be
    # forced through __index__ by the interpreter; sx_truth_ asks `len != 0` instead (2-way fork)
    def _wrap_test(self, e):
        if isinstance(e, ast.BoolOp):
            e.values = [self._wrap_test(v) for v in e.values]
            return e
        if isinstance(e, ast.UnaryOp) and isinstance(e.op, ast.Not):
            e.operand = self._wrap_test(e.operand)
            return e
        if isinstance(e, (ast.Name, ast.Attribute)):
            return ast.copy_location(ast.Call(ast.Name("sx_truth_", ast.Load()), [e], []), e)
        return e

    def visit_If(self, node):
        self.generic_visit(node)
        node.test = self._wrap_test(node.test)
        return node

    def visit_While(self, node):
        self.generic_visit(node)
        node.test = self._wrap_test(node.test)
        return node

    def visit_IfExp(self, node):
        self.generic_visit(node)
        node.test = self._wrap_test(node.test)
        return node

    def visit_AnnAssign(self, node):
        if node.value is not None:
            node.value = self.visit(node.value)
        return node

    def visit_arguments(self, node):
        node.defaults = [self.visit(d) for d in node.defaults]
        node.kw_defaults = [self.visit(d) if d is not None else None for d in node.kw_defaults]
        return node

    def visit_FunctionDef(self, node):
        node.args = self.visit(node.args)
        node.body = [self.visit(s) for s in node.body]
        return node

    visit_AsyncFunctionDef = visit_FunctionDef

    def visit_ClassDef(self, node):
        node.body = [self.visit(s) for s in node.body]
        for i, b in enumerate(node.bases):
            if isinstance(b, ast.Name) and b.id in _BUILTIN_BASES:
                node.bases[i] = ast.copy_location(ast.Name(f"sx_real_{b.id}_", ast.Load()), b)
        return node


def _leaf_map():
    m = {
        id(struct): shims.StructModel,
        id(struct.pack): shims.StructModel.pack,
        id(struct.unpack): shims.StructModel.unpack,
        id(struct.unpack_from): shims.StructModel.unpack_from,
        id(struct.pack_into): shims.StructModel.pack_into,
        id(struct.iter_unpack): shims.StructModel.iter_unpack,
        id(math): shims.MATH,
        id(math.ceil): shims.MATH.ceil,
        id(math.floor): shims.MATH.floor,
        id(binascii.crc32): shims.binascii_crc32,
        id(zlib.crc32): shims.binascii_crc32,
    }
    try:
        import crcmod
        m[id(crcmod)] = shims.CrcmodModel
        m[id(crcmod.mkCrcFun)] = shims.mkCrcFun
    except ImportError:
        pass
    return m


_LEAVES = None
EXTRA_PATCHES = {}  # id(original) -> replacement, registered by stubs (applied to later imports too)


def patch_module(mod):
    global _LEAVES
    if _LEAVES is None:
        _LEAVES = _leaf_map()
    d = vars(mod)
    for name, val in list(d.items()):
        r = _LEAVES.get(id(val))
        if r is None:
            r = EXTRA_PATCHES.get(id(val))
        if r is not None:
            d[name] = r


def patch_everywhere(orig, new):
    """Replace object `orig` by `new` in the globals of every loaded spsdk module (and later ones)."""
    EXTRA_PATCHES[id(orig)] = new
    _KEEP.append(orig)
    n = 0
    for name, mod in list(sys.modules.items()):
        if mod is not None and (name == "spsdk" or name.startswith("spsdk.")):
            for k, v in list(vars(mod).items()):
                if v is orig:
                    vars(mod)[k] = new
                    n += 1
    return n


_KEEP = []


class Loader(importlib.machinery.SourceFileLoader):
    def source_to_code(self, data, path, *, _optimize=-1):
        tree = ast.parse(data, path)
        tree = Rewriter().visit(tree)
        ast.fix_missing_locations(tree)
        LOADED[self.name] = (path, hashlib.sha256(data).hexdigest())
        return compile(tree, path, "exec", dont_inherit=True, optimize=_optimize)

    def get_code(self, fullname):
        # never use cached bytecode: the encoding is regenerated from the working tree each run
        path = self.get_filename(fullname)
        return self.source_to_code(self.get_data(path), path)

    def exec_module(self, module):
        module.__dict__["__builtins__"] = shims.SHIM
        super().exec_module(module)
        patch_module(module)


class Finder(importlib.abc.MetaPathFinder):
    def find_spec(self, name, path, target=None):
        if not (name == "spsdk" or name.startswith("spsdk.")):
            return None
        spec = importlib.machinery.PathFinder.find_spec(name, path)
        if spec is None or not isinstance(spec.loader, importlib.machinery.SourceFileLoader):
            return spec
        if not spec.origin.startswith(REPO + "/"):
            raise ImportError(f"spsdk module {name} would load from {spec.origin}, not from {REPO}")
        spec.loader = Loader(spec.loader.name, spec.loader.path)
        return spec


def install():
    if "spsdk" in sys.modules:
        raise RuntimeError("symx loader must be installed before spsdk is imported")
    if REPO not in sys.path or sys.path.index(REPO) != 0:
        sys.path.insert(0, REPO)
    sys.dont_write_bytecode = True
    if not any(isinstance(f, Finder) for f in sys.meta_path):
        sys.meta_path.insert(0, Finder())


def module_hashes(prefixes=None):
    out = {}
    for name, (path, h) in sorted(LOADED.items()):
        if prefixes is None or any(name.startswith(p) for p in prefixes):
            out[name] = h[:16]
    return out

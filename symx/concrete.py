"""Concrete runner: executes harness bodies on the UNMODIFIED spsdk (no loader, no shims)."""
import importlib
import json
import os
import sys


def main():
    jf, of = sys.argv[1], sys.argv[2]
    repo = os.environ.get("SYMX_REPO", "/repo")
    if sys.path[0] != repo:
        sys.path.insert(0, repo)
    import logging
    logging.disable(logging.CRITICAL)
    import spsdk
    assert spsdk.__file__.startswith(repo + "/"), spsdk.__file__
    from symx.run import run_concrete
    jobs = json.load(open(jf))
    mods = {}
    out = []
    for j in jobs:
        hn = j["harness"]
        if hn not in mods:
            m = importlib.import_module(f"harness.{hn}")
            m.setup(False)
            mods[hn] = m
        try:
            out.append(run_concrete(mods[hn], j["case"], j["inputs"]))
        except BaseException as e:  # noqa
            out.append({"error": f"runner: {type(e).__name__}: {e}", "sig": None, "failed": [], "observed": {}})
    json.dump(out, open(of, "w"))


if __name__ == "__main__":
    main()

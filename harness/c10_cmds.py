"""C10 (command layer) - McuBoot operations over an interface whose read() yields an ARBITRARY sequence of frame-level
events (exactly the outcomes the frame layer's contract allows: a data payload, a response of any tag / status, timeout,
data abort, connection error, then silence).  Host-to-device traffic must be the reference encoding, each data byte once
and in order in packets no larger than the negotiated size; a call that reports success must have been justified by the
events, and its result must be exactly and completely what the device sent."""
PROPERTY = "C10"
NAME = "c10_cmds"
LOGIC = "bv"
ENCODES = [
    "spsdk.mboot.mcuboot.McuBoot._process_cmd", "spsdk.mboot.mcuboot.McuBoot._read_data", "spsdk.mboot.mcuboot.McuBoot._send_data",
    "spsdk.mboot.mcuboot.McuBoot._split_data", "spsdk.mboot.mcuboot.McuBoot._get_max_packet_size",
    "spsdk.mboot.mcuboot.McuBoot.read_memory", "spsdk.mboot.mcuboot.McuBoot.write_memory", "spsdk.mboot.mcuboot.McuBoot.fill_memory",
    "spsdk.mboot.mcuboot.McuBoot.flash_erase_region", "spsdk.mboot.mcuboot.McuBoot.flash_erase_all",
    "spsdk.mboot.mcuboot.McuBoot.get_property", "spsdk.mboot.mcuboot.McuBoot.set_property",
    "spsdk.mboot.mcuboot.McuBoot.receive_sb_file", "spsdk.mboot.mcuboot.McuBoot.flash_program_once",
    "spsdk.mboot.mcuboot.McuBoot.flash_read_once", "spsdk.mboot.mcuboot.McuBoot.execute", "spsdk.mboot.mcuboot.McuBoot.call",
    "spsdk.mboot.mcuboot.McuBoot.load_image", "spsdk.mboot.commands.CmdPacket.*", "spsdk.mboot.commands.parse_cmd_response",
    "spsdk.sdp.sdp.SDP._process_cmd", "spsdk.sdp.sdp.SDP._read_data", "spsdk.sdp.sdp.SDP._send_data", "spsdk.sdp.sdp.SDP._read_status",
    "spsdk.sdp.sdp.SDP.read", "spsdk.sdp.sdp.SDP.write", "spsdk.sdp.sdp.SDP.write_file", "spsdk.sdp.sdp.SDP.read_status",
    "spsdk.sdp.sdp.SDP.jump_and_run",
]
BOUNDS = {
    "quick": "one operation per case; K <= 4 device events, each a symbolic choice among data payload (4 symbolic bytes), "
             "response (tag from {generic, typed-for-the-command}, status word and second word symbolic 32 bit), timeout, "
             "data abort, connection error; then silence; addresses / lengths / property values symbolic 32 bit; written "
             "data 0..9 symbolic bytes with negotiated packet sizes {1, 4, 8}; requested read lengths {0, 4, 8}; both "
             "transports (serial-like and USB-HID device class); cmd_exception off and on",
    "thorough": "K <= 5, data up to 17 bytes, packet sizes {1, 3, 4, 8, 16}",
}
OUTSIDE = ("transfers above the bounds (64 KiB); histories longer than two operations (history/* cases: every ordered pair of "
           "five operations on one object, the second compared with the same operation on a fresh object); real timing: silence is a "
           "TimeoutError from the stub; a response that answers a different command than the one sent is mirrored, not "
           "rejected, by _process_cmd (not one of the listed faults); trust-provisioning / EL2GO / key-provisioning commands")
STUBS = ["interface -> scripted event source with a send log (what the frame layer's contract allows)",
         "time.sleep -> no-op", "status / packet text rendering used for logging -> constants"]
MUST_REACH = ["cmd\\..*", "read\\..*", "write\\..*", "prop\\..*", "sdp\\..*"]
OPTS = {"quick": {"case_timeout_s": 300, "max_paths": 30000}, "thorough": {"case_timeout_s": 2400, "max_paths": 300000}}

DATA, RESP, TIMEOUT, ABORT, CONNERR = range(5)
KINDS = ("data", "resp", "timeout", "abort", "connerr")


def setup(symbolic):
    global MB, CMD, MEX, EX, EC, USB, SDP, SCMD, SEX, SYM, PROP
    SYM = symbolic
    import spsdk.exceptions as EX
    import spsdk.mboot.exceptions as MEX
    import spsdk.mboot.commands as CMD
    import spsdk.mboot.error_codes as EC
    import spsdk.mboot.properties as PROP
    import spsdk.mboot.mcuboot as MB
    import spsdk.sdp.sdp as SDP
    import spsdk.sdp.commands as SCMD
    import spsdk.sdp.exceptions as SEX
    from spsdk.utils.interfaces.device.usb_device import UsbDevice as USB
    MB.time.sleep = lambda s: None
    if symbolic:
        # logging / formatting only: rendering a symbolic status word as text walks the table of ~400 status codes
        MB.stringify_status_code = lambda code: "status"
        for cls in (CMD.CmdResponse, CMD.GenericResponse, CMD.GetPropertyResponse, CMD.ReadMemoryResponse,
                    CMD.FlashReadOnceResponse, CMD.FlashReadResourceResponse, CMD.KeyProvisioningResponse,
                    CMD.TrustProvisioningResponse, CMD.CmdPacket, CMD.CmdHeader):
            cls.__str__ = lambda self: "<packet>"

        class StatusProxy:
            """StatusCode as mcuboot.py sees it: tags() (used for log labels only) is empty"""

            def __getattr__(self, name):
                return getattr(EC.StatusCode, name)

            @staticmethod
            def tags():
                return []
        MB.StatusCode = StatusProxy()
        MEX.StatusCode = StatusProxy()
        # SDP response text (logging): keep the access to .value (it fails for a short answer), drop the label lookup
        SCMD.CmdResponse.__str__ = lambda self: (self.value, "<response>")[1]


class Script:
    """K symbolic device events followed by silence"""

    def __init__(self, env, K, typed_tag, dlen=4):
        self.env, self.events = env, []
        for i in range(K):
            kind = env.int(f"ev{i}_kind", 0, 4)
            payload = env.bytes(f"ev{i}_data", dlen)
            typed = env.bool(f"ev{i}_typed")
            status = env.int(f"ev{i}_status", 0, 0xFFFFFFFF)
            word = env.int(f"ev{i}_word", 0, 0xFFFFFFFF)
            self.events.append((kind, payload, typed, status, word))
        self.typed_tag = typed_tag
        self.pos = 0
        self.seen = []      # decoded events as the operation consumed them: (kind, payload | (tag, status, word))

    def next(self, data_phase):
        env = self.env
        if self.pos >= len(self.events):
            self.seen.append((TIMEOUT, None))
            raise TimeoutError()
        kind, payload, typed, status, word = self.events[self.pos]
        self.pos += 1
        if not data_phase:
            # a data packet where the protocol has no data phase is a device that breaks the protocol, not a link fault
            env.assume(kind != DATA)
            if getattr(self, "typed_answer", False):
                env.assume(env.Implies(env.And(kind == RESP, status == 0), typed))
        for k in range(5):
            if env.is_true(kind == k):
                kk = k
        if kk == DATA:
            self.seen.append((DATA, payload))
            return payload if env.symbolic else bytes(payload)
        if kk == RESP:
            tag = self.typed_tag if env.is_true(typed) else 0xA0
            raw = bytes([tag, 0, 0, 2]) + _le32(env, status) + _le32(env, word)
            self.seen.append((RESP, (tag, status, word)))
            return CMD.parse_cmd_response(raw)
        self.seen.append((kk, None))
        if kk == TIMEOUT:
            raise TimeoutError()
        if kk == ABORT:
            raise MEX.McuBootDataAbortError()
        raise MEX.McuBootConnectionError("link fault")


def _le32(env, v):
    if isinstance(v, int):
        return v.to_bytes(4, "little")
    return v.to_bytes(4, "little")


class Iface:
    allow_abort = False
    need_data_split = True
    is_opened = True

    def __init__(self, script, usb, wfault=None):
        self.script, self.sent = script, []
        self.device = USB.__new__(USB) if usb else object()
        self.wfault = wfault       # (index of the data chunk at which the write fails, kind)

    def open(self):
        pass

    def close(self):
        pass

    def write_command(self, packet):
        self.sent.append(("cmd", packet.to_bytes(padding=False)))

    def write_data(self, data):
        n = sum(1 for k, _ in self.sent if k == "data")
        if self.wfault is not None and self.wfault[0] == n:
            self.sent.append(("fault", None))
            if self.wfault[1] == "abort":
                raise MEX.McuBootDataAbortError()
            if self.wfault[1] == "timeout":
                raise TimeoutError()
            raise MEX.McuBootConnectionError("link fault")
        self.sent.append(("data", data))

    def read(self, length=None):
        import sys
        return self.script.next(sys._getframe(1).f_code.co_name == "_read_data")


def documented(e):
    return isinstance(e, (MEX.McuBootError, EX.SPSDKError, TimeoutError))


def ref_cmd(env, tag, flags, params):
    out = [tag, flags, 0, len(params)]
    for p in params:
        out += list(_le32(env, p))
    return out


def call(env, f):
    try:
        return f(), None
    except Exception as e:       # noqa - classified by the caller
        return None, e


def mk(env, c, typed_tag, dlen=4, wfault=None):
    script = Script(env, c["K"], typed_tag, dlen)
    iface = Iface(script, c.get("usb", False), wfault)
    mb = MB.McuBoot(iface, cmd_exception=c.get("exc", False))
    if c.get("P"):
        mb.max_packet_size = c["P"]
    return script, iface, mb


def first_resp(script):
    """(is a response, tag, status, word) of the first consumed event"""
    if not script.seen or script.seen[0][0] != RESP:
        return None
    return script.seen[0][1]


# ---------------------------------------------------------------------------------------------------- simple commands
SIMPLE = {
    "fill_memory": (0x05, 0, 3, lambda mb, a: mb.fill_memory(a[0], a[1], a[2]), lambda a: [a[0], a[1], a[2]]),
    "flash_erase_region": (0x02, 0, 2, lambda mb, a: mb.flash_erase_region(a[0], a[1], 0), lambda a: [a[0], a[1], 0]),
    "flash_erase_all": (0x01, 0, 0, lambda mb, a: mb.flash_erase_all(0), lambda a: [0]),
    "set_property": (0x0C, 0, 1, lambda mb, a: mb.set_property(10, a[0]), lambda a: [10, a[0]]),
    "execute": (0x09, 0, 3, lambda mb, a: mb.execute(a[0], a[1], a[2]), lambda a: [a[0], a[1], a[2]]),
    "call": (0x0A, 0, 2, lambda mb, a: mb.call(a[0], a[1]), lambda a: [a[0], a[1]]),
}


def h_simple(env, c):
    tag, flags, nargs, fn, params = SIMPLE[c["op"]]
    script, iface, mb = mk(env, c, 0xA0)
    args = [env.int(f"arg{i}", 0, 0xFFFFFFFF) for i in range(nargs)]
    res, exc = call(env, lambda: fn(mb, args))
    check_cmd_sent(env, iface, tag, flags, params(args))
    env.prove(sum(1 for k, _ in iface.sent if k == "data") == 0, "cmd.no_data_phase_for_simple_command")
    if exc is not None:
        env.prove(documented(exc), "cmd.fault_surfaces_as_documented_exception")
        return
    fr = first_resp(script)
    justified = fr is not None and env.is_true(fr[1] == 0)
    env.prove(bool(res) == justified, "cmd.true_iff_device_answered_success")
    if fr is not None:
        env.prove(mb.status_code == fr[1], "cmd.status_code_mirrors_device")
    if c.get("exc"):
        env.prove(justified, "cmd.no_silent_failure_with_cmd_exception")


def check_cmd_sent(env, iface, tag, flags, params, index=0, label="cmd.command_packet_is_reference_encoding"):
    cmds = [d for k, d in iface.sent if k == "cmd"]
    env.prove(len(cmds) > index, "cmd.command_sent")
    if len(cmds) > index:
        env.prove(env.bytes_eq(cmds[index], ref_cmd(env, tag, flags, params)), label)


# ---------------------------------------------------------------------------------------------------- get property
def h_get_property(env, c):
    script, iface, mb = mk(env, c, 0xA7)
    index = env.int("index", 0, 0xFFFFFFFF)
    res, exc = call(env, lambda: mb.get_property(PROP.PropertyTag.MAX_PACKET_SIZE, index))
    check_cmd_sent(env, iface, 0x07, 0, [PROP.PropertyTag.MAX_PACKET_SIZE.tag, index])
    if exc is not None:
        env.prove(documented(exc), "cmd.fault_surfaces_as_documented_exception")
        return
    fr = first_resp(script)
    if res is not None:
        env.prove(fr is not None and fr[0] == 0xA7 and env.is_true(fr[1] == 0), "prop.values_only_from_successful_property_response")
        if fr is not None:
            env.prove(len(res) == 1 and env.is_true(res[0] == fr[2]), "prop.values_as_sent_by_device")
    else:
        env.prove(fr is None or env.is_true(fr[1] != 0), "prop.none_only_on_failure")
    if fr is not None:
        env.prove(mb.status_code == fr[1], "cmd.status_code_mirrors_device")


# ---------------------------------------------------------------------------------------------------- read memory
def SUCCESS_LABEL(seen):
    """a success that the events do not justify: after a link fault (connection error / silence) in the exchange it is a
    different obligation than the recorded finding 'data phase closed early with SUCCESS'"""
    if any(k in (CONNERR, TIMEOUT) for k, _ in seen):
        return "read.no_success_after_a_link_fault"
    return "read.success_only_when_device_completed_the_transfer"


def h_read_memory(env, c):
    script, iface, mb = mk(env, c, 0xA3)
    addr = env.int("address", 0, 0xFFFFFFFF)
    length = c["len"]
    env.assume(addr + length <= 0x100000000)      # the range lies inside the 32-bit address space
    script.typed_answer = True     # (a generic SUCCESS answer to read-memory breaks the protocol: AssertionError today)
    res, exc = call(env, lambda: mb.read_memory(addr, length))
    if exc is not None:
        env.prove(documented(exc), "cmd.fault_surfaces_as_documented_exception")
    cmds = [d for k, d in iface.sent if k == "cmd"]
    usb, P = c.get("usb", False), c.get("P")
    # ---- reference run of the protocol over the consumed events ----------------------------------------------------
    seen = list(script.seen)
    pos = 0
    got = []
    ok = True
    npk = 1 if not usb else (length + P - 1) // P
    for i in range(npk):
        want = length if not usb else min(P, length - i * P)
        if i > 0 and len(cmds) <= i:
            ok = False          # the implementation gave up before this packet
            break
        check_cmd_sent(env, iface, 0x03, 0, [addr + (i * P if usb else 0), want, 0], index=i,
                       label="read.command_packet_is_reference_encoding")
        if pos >= len(seen) or seen[pos][0] != RESP:
            ok = False
            break
        tag, status, word = seen[pos][1]
        pos += 1
        if not env.is_true(status == 0) or tag != 0xA3:
            ok = False
            break
        announced = word if not usb else want
        data = []
        final = None
        while pos < len(seen):
            k, v = seen[pos]
            pos += 1
            if k == DATA:
                data += list(v)
            elif k == RESP:
                if v[0] == 0xA0 and env.is_true(v[2] == 0x03):
                    final = v
                    break
            elif k == ABORT:
                continue
            else:
                break
        if final is None or not env.is_true(final[1] == 0):
            ok = False
            break
        # exactly and completely: the device announced `announced` bytes and sent them
        short = True
        for n in range(0, len(data) + 1):
            if env.is_true(announced == n):
                short = False
                got += data[:n]
        if short:
            ok = False
            break
    success = exc is None and res is not None and mb.status_code == 0
    if not usb:
        # success claimed => justified by the events, data exact and complete
        if success and env.is_true(True):
            env.prove(ok, SUCCESS_LABEL(seen))
            if ok:
                env.prove(len(res) == len(got) and env.is_true(env.bytes_eq(res, got)) if not env.symbolic else
                          (env.bytes_eq(res, got) if len(res) == len(got) else False), "read.data_exact_and_complete")
    else:
        if success and len(res) > 0 or (success and length == 0):
            env.prove(ok, SUCCESS_LABEL(seen))
            if ok:
                env.prove(len(res) == length, "read.data_complete")
                env.prove(len(res) == len(got) and env.is_true(env.bytes_eq(res, got)) if not env.symbolic else
                          (env.bytes_eq(res, got) if len(res) == len(got) else False), "read.data_exact_and_complete")
    if ok and exc is None:
        env.prove(res is not None and mb.status_code == 0, "read.completed_transfer_is_reported_as_success")
    env.prove(sum(1 for k, _ in iface.sent if k == "data") == 0, "read.nothing_written_in_a_read")
    env.prove(len(cmds) <= npk, "read.no_command_repeated")


# ---------------------------------------------------------------------------------------------------- write memory
def h_write(env, c):
    op = c["op"]
    n, P = c["n"], c["P"]
    wf = None
    if c.get("wfault"):
        wf = (c["wfault"][0], c["wfault"][1])
    script, iface, mb = mk(env, c, 0xA0, wfault=wf)
    data = env.bytes("data", n)
    addr = env.int("address", 0, 0xFFFFFFFF)
    if op == "write_memory":
        res, exc = call(env, lambda: mb.write_memory(addr, data))
        check_cmd_sent(env, iface, 0x04, 1, [addr, n, 0], label="write.command_packet_is_reference_encoding")
        final_tag = 0x04
    elif op == "receive_sb_file":
        res, exc = call(env, lambda: mb.receive_sb_file(data))
        check_cmd_sent(env, iface, 0x08, 1, [n], label="write.command_packet_is_reference_encoding")
        final_tag = 0x08
    else:
        res, exc = call(env, lambda: mb.load_image(data))
        final_tag = None
    if exc is not None:
        env.prove(documented(exc), "cmd.fault_surfaces_as_documented_exception")
    chunks = [d for k, d in iface.sent if k == "data"]
    # every chunk within the negotiated size, in order, nothing twice
    env.prove(all(len(ch) <= P for ch in chunks), "write.packets_no_larger_than_negotiated_size")
    flat = [x for ch in chunks for x in ch]
    env.prove(len(flat) <= n and env.is_true(env.bytes_eq(flat, list(data)[:len(flat)])), "write.bytes_in_order_each_once")
    seen = list(script.seen)
    if final_tag is not None:
        fr = first_resp(script)
        started = fr is not None and env.is_true(fr[1] == 0)
        if not started:
            env.prove(len(chunks) == 0, "write.no_data_sent_when_command_was_refused")
            env.prove(exc is not None or not res, "write.refused_command_is_a_failure")
            return
        # after the data phase the device's final response decides (the implementation reads once more after a data
        # abort / link error, so it is the LAST response consumed that counts)
        final = None
        if len(seen) > 1 and seen[-1][0] == RESP:
            final = seen[-1][1]
        if exc is None and res:
            env.prove(len(flat) == n, "write.success_only_when_all_bytes_were_sent")
            env.prove(final is not None and env.is_true(final[1] == 0), "write.success_only_when_device_confirmed")
        if exc is None and final is not None and env.is_true(final[1] == 0) and len(flat) == n:
            env.prove(bool(res), "write.confirmed_complete_transfer_is_reported_as_success")
    else:
        env.prove(not any(k == "cmd" for k, _ in iface.sent), "write.load_image_sends_no_command")
        if exc is None and res:
            env.prove(len(flat) == n, "write.success_only_when_all_bytes_were_sent")
        if exc is None and wf is None:
            env.prove(bool(res) and len(flat) == n, "write.load_image_without_fault_delivers_everything")
        if wf is not None:
            env.prove(exc is not None or not res, "write.refused_chunk_is_a_failure")


# ---------------------------------------------------------------------------------------------------- negotiation
def h_negotiate(env, c):
    """max packet size comes from the device: write_memory first asks for it"""
    script, iface, mb = mk(env, dict(c, P=None), 0xA7)
    n = c["n"]
    env.assume(env.And(script.events[0][4] >= 1, script.events[0][4] <= 8))     # reported packet size 1..8
    data = env.bytes("data", n)
    res, exc = call(env, lambda: mb.write_memory(0x1000, data))
    if exc is not None:
        env.prove(documented(exc), "cmd.fault_surfaces_as_documented_exception")
    fr = first_resp(script)
    chunks = [d for k, d in iface.sent if k == "data"]
    if fr is not None and fr[0] == 0xA7 and env.is_true(fr[1] == 0):
        for p in range(1, n + 1):
            if env.is_true(fr[2] == p):
                env.prove(all(len(ch) <= p for ch in chunks), "write.packets_no_larger_than_negotiated_size")
    else:
        env.prove(all(len(ch) <= 32 for ch in chunks), "write.default_packet_size_when_negotiation_fails")
    flat = [x for ch in chunks for x in ch]
    env.prove(len(flat) <= n and env.is_true(env.bytes_eq(flat, list(data)[:len(flat)])), "write.bytes_in_order_each_once")


# ---------------------------------------------------------------------------------------------------- histories
def _do(env, mb, op, arg):
    if op == "get_property":
        return mb.get_property(PROP.PropertyTag.MAX_PACKET_SIZE, arg)
    if op == "fill_memory":
        return mb.fill_memory(arg, 4, 0xFFFFFFFF)
    if op == "read_memory":
        return mb.read_memory(arg % 0x10000000, 4)
    if op == "write_memory":
        return mb.write_memory(arg % 0x10000000, b"\x01\x02\x03\x04\x05")
    if op == "set_property":
        return mb.set_property(10, arg)
    raise ValueError(op)


TYPED = {"get_property": 0xA7, "read_memory": 0xA3}


def h_history(env, c):
    """two operations on ONE McuBoot object: the second behaves exactly as on a fresh object that sees the remaining
    device events (no state leaks from one operation into the next; the negotiated packet size is given to both)"""
    op1, op2 = c["ops"]
    script = Script(env, c["K"], TYPED.get(op1, 0xA0))
    iface = Iface(script, c.get("usb", False))
    mb = MB.McuBoot(iface, cmd_exception=c.get("exc", False))
    mb.max_packet_size = 4
    a1, a2 = env.int("arg1", 0, 0xFFFFFFFF), env.int("arg2", 0, 0xFFFFFFFF)
    script.typed_answer = op1 == "read_memory"
    r1, e1 = call(env, lambda: _do(env, mb, op1, a1))
    if e1 is not None:
        env.prove(documented(e1), "cmd.fault_surfaces_as_documented_exception")
    consumed = script.pos
    sent_before = len(iface.sent)
    script.typed_tag = TYPED.get(op2, 0xA0)
    script.typed_answer = op2 == "read_memory"
    r2, e2 = call(env, lambda: _do(env, mb, op2, a2))
    st2 = mb.status_code
    sent2 = iface.sent[sent_before:]
    # ---- the same second operation on a fresh object over the remaining events ------------------------------------------
    fresh_script = Script.__new__(Script)
    fresh_script.env, fresh_script.events, fresh_script.pos, fresh_script.seen = env, script.events[consumed:], 0, []
    fresh_script.typed_tag = TYPED.get(op2, 0xA0)
    fresh_script.typed_answer = op2 == "read_memory"
    fi = Iface(fresh_script, c.get("usb", False))
    fm = MB.McuBoot(fi, cmd_exception=c.get("exc", False))
    fm.max_packet_size = 4
    r3, e3 = call(env, lambda: _do(env, fm, op2, a2))
    env.prove(type(e2) is type(e3), "cmd.history_same_exception_as_on_fresh_object")
    if e2 is None and e3 is None:
        same = (r2 is None) == (r3 is None)
        if same and r2 is not None:
            if not hasattr(r2, "__len__") or not hasattr(r3, "__len__"):
                same = bool(r2) == bool(r3)
            elif isinstance(r2, list):
                same = len(r2) == len(r3) and all(env.is_true(x == y) for x, y in zip(r2, r3))
            else:
                same = len(r2) == len(r3) and env.is_true(env.bytes_eq(r2, r3))
        env.prove(same, "cmd.history_same_result_as_on_fresh_object")
        env.prove(env.is_true(st2 == fm.status_code), "cmd.history_same_status_as_on_fresh_object")
    env.prove(len(sent2) == len(fi.sent) and all(k1 == k2 and (d1 is None or env.is_true(env.bytes_eq(d1, d2)))
                                                 for (k1, d1), (k2, d2) in zip(sent2, fi.sent)),
              "cmd.history_same_traffic_as_on_fresh_object")


# ---------------------------------------------------------------------------------------------------- SDP
class SdpIface:
    """SDP interface: every read() yields the next scripted answer: (hab flag, payload of a scripted length) or a fault"""
    is_opened = True

    def __init__(self, env, K, lens):
        self.env, self.sent, self.seen, self.pos = env, [], [], 0
        self.expect_status = False
        self.events = []
        for i in range(K):
            self.events.append((env.int(f"ev{i}_kind", 0, 2), env.bytes(f"ev{i}_data", lens[i % len(lens)])))

    def open(self):
        pass

    def close(self):
        pass

    def write_command(self, packet):
        self.sent.append(("cmd", packet.to_bytes()))

    def write_data(self, data):
        self.sent.append(("data", data))

    def read(self, length=None):
        env = self.env
        if self.pos >= len(self.events):
            self.seen.append(("fault", None, length))
            raise TimeoutError()
        kind, payload = self.events[self.pos]
        self.pos += 1
        for k in range(3):
            if env.is_true(kind == k):
                kk = k
        if kk == 2:
            self.seen.append(("fault", None, length))
            raise TimeoutError()
        self.seen.append(("hab" if kk == 1 else "data", payload, length))
        return SCMD.CmdResponse(kk == 1, payload if env.symbolic else bytes(payload))


def sdp_documented(e):
    return isinstance(e, (SEX.SdpError, EX.SPSDKError))


def h_sdp_read(env, c):
    iface = SdpIface(env, c["K"], c["lens"])
    sdp = SDP.SDP(iface, cmd_exception=c.get("exc", False))
    addr = env.int("address", 0, 0xFFFFFFFF)
    length = c["len"]
    res, exc = call(env, lambda: sdp.read(addr, length))
    if exc is not None:
        env.prove(sdp_documented(exc), "sdp.fault_surfaces_as_documented_exception")
    cmds = [d for k, d in iface.sent if k == "cmd"]
    env.prove(len(cmds) == 1, "sdp.one_command_sent")
    if cmds:
        ref = [0x01, 0x01] + list(_be32(env, addr)) + [32] + list(_be32(env, length)) + [0, 0, 0, 0, 0]
        env.prove(env.bytes_eq(cmds[0], ref), "sdp.command_packet_is_reference_encoding")
    if exc is None:
        # bytes returned = the non-status payloads after the first answer, in order, exactly `length` of them
        payload = []
        for kind, data, _ in iface.seen[1:]:
            if kind == "data":
                payload += list(data)
        env.prove(res is not None and len(res) == length, "sdp.read_returns_complete_data_or_raises")
        if res is not None and len(res) == length:
            env.prove(len(payload) >= length and env.is_true(env.bytes_eq(res, payload[:length])), "sdp.read_data_exact")
        env.prove(all(k != "fault" for k, _, _ in iface.seen), "sdp.no_success_after_a_link_fault")


def _be32(env, v):
    return v.to_bytes(4, "big")


def h_sdp_write(env, c):
    iface = SdpIface(env, c["K"], [4])
    sdp = SDP.SDP(iface, cmd_exception=c.get("exc", False))
    addr = env.int("address", 0, 0xFFFFFFFF)
    if c["op"] == "write":
        value = env.int("value", 0, 0xFFFFFFFF)
        res, exc = call(env, lambda: sdp.write(addr, value))
        ok_word = 0x128A8A12
    else:
        data = env.bytes("data", c["n"])
        res, exc = call(env, lambda: sdp.write_file(addr, data))
        ok_word = 0x88888888
    if exc is not None:
        env.prove(sdp_documented(exc), "sdp.fault_surfaces_as_documented_exception")
    cmds = [d for k, d in iface.sent if k == "cmd"]
    env.prove(len(cmds) == 1, "sdp.one_command_sent")
    if c["op"] == "write_file":
        sent = [d for k, d in iface.sent if k == "data"]
        env.prove(len(sent) <= 1 and (not sent or env.is_true(env.bytes_eq(sent[0], data))), "sdp.file_data_sent_once_and_exact")
        if cmds:
            ref = [0x04, 0x04] + list(_be32(env, addr)) + [0] + list(_be32(env, c["n"])) + [0, 0, 0, 0, 0]
            env.prove(env.bytes_eq(cmds[0], ref), "sdp.command_packet_is_reference_encoding")
    if exc is None and res:
        # success only if the device's second answer is the OK word of the command
        env.prove(len(iface.seen) >= 2 and iface.seen[1][0] != "fault" and
                  env.is_true(env.from_bytes(iface.seen[1][1], "big") == ok_word), "sdp.success_only_with_ok_status_word")
    if exc is None and not res:
        env.prove(len(iface.seen) >= 2 and iface.seen[1][0] != "fault" and
                  env.is_true(env.from_bytes(iface.seen[1][1], "big") != ok_word), "sdp.false_only_with_other_status_word")


def cases(tier):
    q = tier == "quick"
    cs = []
    Ks = (1, 2) if q else (1, 2, 3)
    for op in SIMPLE:
        for exc in (False, True):
            for K in Ks:
                cs.append({"id": f"simple/{op}/exc={int(exc)}/K={K}", "h": "simple", "op": op, "exc": exc, "K": K})
    for exc in (False, True):
        for K in Ks:
            cs.append({"id": f"get_property/exc={int(exc)}/K={K}", "h": "get_property", "exc": exc, "K": K})
    for exc in (False, True):
        for ln in (0, 4, 8):
            for K in ((2, 3, 4) if q else (2, 3, 4, 5)):
                cs.append({"id": f"read_memory/serial/len={ln}/exc={int(exc)}/K={K}", "h": "read_memory", "len": ln, "exc": exc,
                           "K": K, "weight": K * K})
        for ln, P in ((4, 4), (8, 4), (6, 4)):
            for K in ((3, 4) if q else (3, 4, 5, 6)):
                if K < 3 * ((ln + P - 1) // P) - 2:
                    continue
                cs.append({"id": f"read_memory/usb/len={ln}/P={P}/exc={int(exc)}/K={K}", "h": "read_memory", "len": ln, "P": P,
                           "usb": True, "exc": exc, "K": K, "weight": K * K})
    for op in ("write_memory", "receive_sb_file"):
        for exc in (False, True):
            for n, P in ((0, 4), (1, 4), (4, 4), (5, 4), (9, 4), (3, 1), (8, 8)) if q else ((0, 4), (1, 4), (4, 4), (5, 4), (9, 4),
                                                                                  (3, 1), (8, 8), (17, 16), (7, 3)):
                for K in (1, 2, 3):
                    if q and K == 3 and n not in (5,):
                        continue
                    cs.append({"id": f"{op}/n={n}/P={P}/exc={int(exc)}/K={K}", "h": "write", "op": op, "n": n, "P": P, "exc": exc,
                               "K": K})
            for kind in ("abort", "timeout", "connerr"):
                for at in (0, 1, 2):       # the refused chunk: first, middle, last
                    cs.append({"id": f"{op}/n=9/P=4/exc={int(exc)}/K=2/wfault={at}:{kind}", "h": "write", "op": op, "n": 9, "P": 4,
                               "exc": exc, "K": 2, "wfault": (at, kind)})
    # load_image: no command, no final response - the result rests on the data phase alone
    for exc in (False, True):
        for n, P in ((1, 4), (4, 4), (9, 4), (8, 8)):
            cs.append({"id": f"load_image/n={n}/P={P}/exc={int(exc)}/K=1", "h": "write", "op": "load_image", "n": n, "P": P,
                       "exc": exc, "K": 1})
            for kind in ("abort", "timeout", "connerr"):
                for at in range((n + P - 1) // P):
                    cs.append({"id": f"load_image/n={n}/P={P}/exc={int(exc)}/K=1/wfault={at}:{kind}", "h": "write",
                               "op": "load_image", "n": n, "P": P, "exc": exc, "K": 1, "wfault": (at, kind)})
    for n in (5,):
        for K in (2, 3):
            cs.append({"id": f"negotiate/n={n}/K={K}", "h": "negotiate", "n": n, "K": K})
    hops = ("get_property", "fill_memory", "read_memory", "write_memory", "set_property")
    for o1 in hops:
        for o2 in hops:
            for exc in (False, True):
                if q and exc and (hops.index(o1) + hops.index(o2)) % 2:
                    continue
                cs.append({"id": f"history/{o1}+{o2}/exc={int(exc)}", "h": "history", "ops": [o1, o2], "exc": exc, "K": 4 if q else 5,
                           "weight": 8})
    for exc in (False, True):
        for ln, lens in ((4, [4]), (8, [4]), (8, [4, 2]), (4, [4, 0]), (6, [4]), (4, [2]), (4, [4, 3])):
            for K in (1, 2, 3, 4):
                cs.append({"id": f"sdp_read/len={ln}/chunks={'-'.join(map(str, lens))}/exc={int(exc)}/K={K}", "h": "sdp_read",
                           "len": ln, "lens": lens, "exc": exc, "K": K})
        for K in (1, 2, 3):
            cs.append({"id": f"sdp_write/write/exc={int(exc)}/K={K}", "h": "sdp_write", "op": "write", "exc": exc, "K": K})
            cs.append({"id": f"sdp_write/write_file/n=5/exc={int(exc)}/K={K}", "h": "sdp_write", "op": "write_file", "n": 5,
                       "exc": exc, "K": K})
    return cs


def run(env, case):
    globals()["h_" + case["h"]](env, case)

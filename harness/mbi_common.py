"""Shared builder / oracles for the Master Boot Image harnesses (C01: round trip + self-describing header,
C02: the exported image passes an independent model of the ROM acceptance checks)."""
import functools

VEC = bytes.fromhex("00200020" "c1000000" "c3000000")      # SP, PC, 3rd vector: concrete and pairwise different
SKIP_MIXINS = ("BcaTable", "BcaObsolete", "FcfObsolete", "Bca", "Fcf", "CertBlockVx")

ENCODES = [
    "spsdk.image.mbi.mbi.MasterBootImage.export_image", "spsdk.image.mbi.mbi.MasterBootImage.parse",
    "spsdk.image.mbi.mbi.MasterBootImage.total_len", "spsdk.image.mbi.mbi.MasterBootImage.app_len",
    "spsdk.image.mbi.mbi.MasterBootImage.total_length_for_cert_block", "spsdk.image.mbi.mbi.create_mbi_class",
    "spsdk.image.mbi.mbi_mixin.Mbi_MixinApp.mix_validate", "spsdk.image.mbi.mbi_mixin.Mbi_MixinIvt.create_flags",
    "spsdk.image.mbi.mbi_mixin.Mbi_MixinIvt.update_ivt", "spsdk.image.mbi.mbi_mixin.Mbi_MixinIvt.clean_ivt",
    "spsdk.image.mbi.mbi_mixin.Mbi_MixinIvt.get_image_version", "spsdk.image.mbi.mbi_mixin.Mbi_MixinIvt.get_tz_type",
    "spsdk.image.mbi.mbi_mixin.Mbi_MixinIvt.get_sub_type", "spsdk.image.mbi.mbi_mixin.Mbi_MixinIvt.get_hw_key_enabled",
    "spsdk.image.mbi.mbi_mixin.Mbi_MixinIvtZeroTotalLength.update_ivt", "spsdk.image.mbi.mbi_mixin.Mbi_MixinTrustZone.mix_parse",
    "spsdk.image.mbi.mbi_mixin.Mbi_MixinLoadAddress.mix_parse", "spsdk.image.mbi.mbi_mixin.Mbi_MixinRelocTable.disassembly_app_data",
    "spsdk.image.mbi.mbi_mixin.Mbi_MixinManifest.mix_parse", "spsdk.image.mbi.mbi_mixin.Mbi_MixinManifestDigest.mix_len",
    "spsdk.image.mbi.mbi_mixin.Mbi_MixinCertBlockV1.mix_parse", "spsdk.image.mbi.mbi_mixin.Mbi_MixinCertBlockV21.mix_parse",
    "spsdk.image.mbi.mbi_mixin.Mbi_MixinKeyStore.mix_parse", "spsdk.image.mbi.mbi_mixin.Mbi_MixinHmac.compute_hmac",
    "spsdk.image.mbi.mbi_mixin.Mbi_MixinCtrInitVector.mix_parse", "spsdk.image.mbi.mbi_mixin.Mbi_ExportMixinApp.collect_data",
    "spsdk.image.mbi.mbi_mixin.Mbi_ExportMixinAppTrustZone.disassemble_image",
    "spsdk.image.mbi.mbi_mixin.Mbi_ExportMixinAppTrustZoneCertBlock.collect_data",
    "spsdk.image.mbi.mbi_mixin.Mbi_ExportMixinAppTrustZoneCertBlock.disassemble_image",
    "spsdk.image.mbi.mbi_mixin.Mbi_ExportMixinAppCertBlockManifest.collect_data",
    "spsdk.image.mbi.mbi_mixin.Mbi_ExportMixinAppCertBlockManifest.finalize",
    "spsdk.image.mbi.mbi_mixin.Mbi_ExportMixinCrcSign.sign", "spsdk.image.mbi.mbi_mixin.Mbi_ExportMixinRsaSign.sign",
    "spsdk.image.mbi.mbi_mixin.Mbi_ExportMixinEccSign.sign", "spsdk.image.mbi.mbi_mixin.Mbi_ExportMixinHmacKeyStoreFinalize.finalize",
    "spsdk.image.mbi.mbi_mixin.Mbi_ExportMixinAppTrustZoneCertBlockEncrypt.encrypt",
    "spsdk.image.mbi.mbi_mixin.Mbi_ExportMixinAppTrustZoneCertBlockEncrypt.post_encrypt",
    "spsdk.image.mbi.mbi_classes.MasterBootImageManifest.export", "spsdk.image.mbi.mbi_classes.MasterBootImageManifestDigest.parse",
    "spsdk.image.mbi.mbi_classes.MasterBootImageManifestCrc.compute_crc", "spsdk.image.mbi.mbi_classes.MultipleImageTable.export",
    "spsdk.image.mbi.mbi_classes.MultipleImageTable.parse", "spsdk.image.mbi.mbi_classes.MultipleImageEntry.parse",
    "spsdk.image.trustzone.TrustZone._custom_export", "spsdk.image.trustzone.TrustZone._parse_raw_data",
    "spsdk.image.keystore.KeyStore.export", "spsdk.utils.images.BinaryImage.export", "spsdk.utils.crypto.cert_blocks.CertBlockV1.export",
    "spsdk.utils.crypto.cert_blocks.CertBlockV21.export", "spsdk.crypto.crc.Crc.calculate",
]
STUBS = ["signature provider / certificates / ECC keys -> stubs (UF SIGN, opaque certificate bodies)",
         "get_hash / hmac -> uninterpreted functions with argument capture; cryptography symmetric API -> ideal cipher "
         "(AES-CTR = XOR with UF keystream per counter block, AES-ECB key derivation = invertible UF)",
         "format_value / value_to_int -> HexNum pair for TrustZone presets (rendering and parsing trusted to be inverse)",
         "crcmod.mkCrcFun -> bit-exact BV model"]


def setup(symbolic):
    global MBI, MM, MC, TZ, KS, CB, EX, SYM
    SYM = symbolic
    import spsdk.exceptions as EX
    if symbolic:
        from symx import stubs, loader, keystubs, hexnum
        stubs.install_symmetric()
        import spsdk.crypto.hash as HM
        import spsdk.crypto.spsdk_hmac as HH
        loader.patch_everywhere(HM.get_hash, stubs.get_hash)
        loader.patch_everywhere(HH.hmac, stubs.hmac)
    import spsdk.image.mbi.mbi as MBI
    import spsdk.image.mbi.mbi_mixin as MM
    import spsdk.image.mbi.mbi_classes as MC
    import spsdk.image.trustzone as TZ
    import spsdk.image.keystore as KS
    import spsdk.utils.crypto.cert_blocks as CB
    if symbolic:
        hexnum.install_value_to_int()
        hexnum.install_format_value()
        cls = keystubs.classes()
        CB.Certificate = keystubs.StubCertificate
        CB.convert_to_ecc_key = lambda key: key if isinstance(key, cls["StubEcc"]) else cls["StubEcc"].recreate_from_data(key)


@functools.lru_cache(None)
def compositions():
    """one (family, key) per distinct mixin composition reachable from the database (46); BCA/FCF/Vx ones listed
    separately (not encoded)."""
    out, skipped = {}, {}
    for fam in MBI.mbi_get_supported_families():
        for key, (cls, tgt, auth) in MBI.get_mbi_classes(fam).items():
            names = tuple(b.__name__.replace("Mbi_", "").replace("Mixin", "") for b in cls.__bases__[1:])
            tgt_dict = skipped if any(n in SKIP_MIXINS for n in names) else out
            tgt_dict.setdefault(names, (fam, key))
    return out, skipped


def mixin_names(cls):
    return [b.__name__.replace("Mbi_", "").replace("Mixin", "") for b in cls.__bases__[1:]]


def u32(env, b, o):
    return env.from_bytes(b[o: o + 4], "little")


def ref_crc_mpeg2(env, data):
    if env.symbolic:
        from symx.shims import crc_generic
        return crc_generic(data, 32, 0x04C11DB7, 0xFFFFFFFF, False, 0)
    crc = 0xFFFFFFFF
    for byte in bytes(data):
        crc ^= byte << 24
        for _ in range(8):
            crc = ((crc << 1) & 0xFFFFFFFF) ^ (0x04C11DB7 if crc & 0x80000000 else 0)
    return crc


class Ctx:
    pass


def build(env, c):
    """Create the real MBI object of the case's class with symbolic content; returns a context with everything the
    oracles need."""
    x = Ctx()
    fam, key = c["family"], c["key"]
    cls = MBI.get_mbi_classes(fam, c.get("revision", "latest"))[key][0]
    x.cls, x.names, x.family = cls, mixin_names(cls), fam
    x.revision = c.get("revision", "latest")
    n = x.names
    L = c["L"]
    x.payload = VEC + env.bytes("app", L - len(VEC))
    kw = dict(family=fam, revision=x.revision, app=x.payload)
    x.has = lambda m: m in n
    if any(m in n for m in ("LoadAddress", "LoadAddressOptional")):
        kw["load_address"] = x.load = env.int("load_address", 0, 0xFFFFFFFF)
    if "ImageVersion" in n:
        kw["image_version"] = x.imgver = env.int("image_version", 0, 0xFFFF)
    if "ImageSubType" in n:
        kw["image_subtype"] = x.subtype = env.int("image_subtype", 0, 3)
    if "HwKey" in n:
        kw["user_hw_key_enabled"] = x.hwkey = bool(env.choice("hw_key", 2))
    x.tz_kind = None
    if any(m in n for m in ("TrustZone", "TrustZoneMandatory", "ManifestDigest", "ManifestCrc")):
        x.tz_kind = c.get("tz", "enabled")
        if x.tz_kind == "disabled":
            tz = TZ.TrustZone.disabled()
        elif x.tz_kind == "enabled":
            tz = TZ.TrustZone.enabled()
        else:
            nregs = TZ.TrustZone.get_preset_data_size(fam, x.revision) // 4
            x.tz_raw = env.bytes("tz_presets", 4 * nregs)
            tz = TZ.TrustZone.from_binary(family=fam, raw_data=x.tz_raw, revision=x.revision)
        kw["trust_zone"] = x.tz = tz
    x.sig_len = 0
    x.sp = None
    if "CertBlockV1" in n:
        x.sig_len = c.get("sig", 256)
        if env.symbolic:
            from symx import keystubs
            cert = keystubs.StubCertificate.make(env.bytes("cert", 9), x.sig_len, ca=False)
            cb = CB.CertBlockV1(build_number=env.int("build", 0, 0xFFFFFFFF))
            cb.set_root_key_hash(c.get("rkh_index", 0), cert.public_key_hash())
            cb.add_certificate(cert)
            x.sp = keystubs.classes()["StubSP"](cert.body, x.sig_len)
        else:
            from spsdk.crypto.certificate import Certificate
            from spsdk.crypto.signature_provider import get_signature_provider
            d = "/repo/tests/sbfile/data/sb2_x/"
            cert = Certificate.load(d + "selfsign_2048_v3.der.crt")
            cb = CB.CertBlockV1(build_number=env.int("build", 0, 0xFFFFFFFF))
            cb.set_root_key_hash(c.get("rkh_index", 0), cert.public_key_hash())
            cb.add_certificate(cert)
            env.bytes("cert", 9)
            x.sp = RecordingSP(get_signature_provider(local_file_key=d + "selfsign_privatekey_rsa2048.pem"))
        kw["cert_block"], kw["signature_provider"] = cb, x.sp
        x.cb = cb
    if "CertBlockV21" in n:
        curve = c.get("curve", "secp256r1")
        cs = {"secp256r1": 32, "secp384r1": 48}[curve]
        x.sig_len = 2 * cs
        x.hbits = cs * 8
        if env.symbolic:
            from symx import keystubs
            kc = keystubs.classes()
            roots = [kc["StubEcc"](env.int(f"rx{i}", 0, (1 << (8 * cs)) - 1), env.int(f"ry{i}", 0, (1 << (8 * cs)) - 1), curve)
                     for i in range(c.get("roots", 1))]
            used = c.get("used", 0)
            root_sp = kc["StubSP"](roots[used].ident(), 2 * cs)
            isk = isk_sp = None
            if c.get("isk"):
                isk = kc["StubEcc"](env.int("ix", 0, (1 << (8 * cs)) - 1), env.int("iy", 0, (1 << (8 * cs)) - 1), curve)
                isk_sp = kc["StubSP"](isk.ident(), 2 * cs)
        else:
            from spsdk.crypto.keys import PublicKeyEcc
            from spsdk.crypto.signature_provider import get_signature_provider
            d = f"/repo/tests/_data/keys/ecc{cs * 8}/"
            roots = []
            for i in range(c.get("roots", 1)):
                env.int(f"rx{i}", 0, (1 << (8 * cs)) - 1), env.int(f"ry{i}", 0, (1 << (8 * cs)) - 1)
                roots.append(PublicKeyEcc.load(d + f"srk{i}_ecc{cs * 8}.pub"))
            used = c.get("used", 0)
            root_sp = RecordingSP(get_signature_provider(local_file_key=d + f"srk{used}_ecc{cs * 8}.pem"))
            isk = isk_sp = None
            if c.get("isk"):
                env.int("ix", 0, (1 << (8 * cs)) - 1), env.int("iy", 0, (1 << (8 * cs)) - 1)
                isk = PublicKeyEcc.load(d + f"imgkey_ecc{cs * 8}.pub")
                isk_sp = RecordingSP(get_signature_provider(local_file_key=d + f"imgkey_ecc{cs * 8}.pem"))
        ud = env.bytes("isk_user_data", c.get("udata", 0)) if c.get("isk") and c.get("udata") else None
        cb = CB.CertBlockV21(root_certs=roots, ca_flag=not c.get("isk"), used_root_cert=used,
                             constraints=env.int("constraints", 0, 0xFFFFFFFF), signature_provider=root_sp, isk_cert=isk, user_data=ud)
        cb.calculate()
        x.sp = isk_sp if c.get("isk") else root_sp
        x.signer = isk if c.get("isk") else roots[used]
        kw["cert_block"], kw["signature_provider"] = cb, x.sp
        x.cb = cb
        x.fwver = env.int("firmware_version", 0, 0xFFFFFFFF)
        mcls = MC.MasterBootImageManifestCrc if "ManifestCrc" in n else MC.MasterBootImageManifestDigest
        if mcls is MC.MasterBootImageManifestDigest:
            from spsdk.crypto.hash import EnumHashAlgorithm
            x.digest = c.get("digest")
            algo = {None: None, 256: EnumHashAlgorithm.SHA256, 384: EnumHashAlgorithm.SHA384}[x.digest]
            man = mcls(x.fwver, kw["trust_zone"], digest_hash_algo=algo)
        else:
            x.digest = None
            man = mcls(x.fwver, kw["trust_zone"])
        kw["manifest"] = x.manifest = man
        kw["firmware_version"] = x.fwver
    if any(m in n for m in ("Hmac", "HmacMandatory")):
        kw["hmac_key"] = x.hmac_key = env.bytes("hmac_user_key", 32)
    x.keystore = None
    if "KeyStore" in n:
        ks = c.get("keystore", "none")
        if ks == "data":
            x.ks_data = env.bytes("key_store", KS.KeyStore.KEY_STORE_SIZE)
            x.keystore = KS.KeyStore(KS.KeySourceType.KEYSTORE, x.ks_data)
        elif ks == "otp":
            x.keystore = KS.KeyStore(KS.KeySourceType.OTP)
        kw["key_store"] = x.keystore
    if "CtrInitVector" in n:
        kw["ctr_init_vector"] = x.iv = env.bytes("ctr_iv", 16)
    x.reloc = None
    if "RelocTable" in n and c.get("reloc"):
        t = MC.MultipleImageTable()
        x.reloc = []
        for i in range(c["reloc"]):
            img = env.bytes(f"reloc{i}", (5, 8, 3)[i % 3])
            dst = env.int(f"reloc_dst{i}", 0, 0xFFFFFFFF)
            t.add_entry(MC.MultipleImageEntry(img, dst, MC.MultipleImageEntry.LTI_LOAD))
            x.reloc.append((img, dst))
        kw["app_table"] = t
    x.obj = cls(**kw)
    x.kw = kw
    return x


class RecordingSP:
    """concrete mode: wraps the real signature provider and records what it signs"""

    def __init__(self, real):
        self.real = real
        self.calls = []

    @property
    def signature_length(self):
        return self.real.signature_length

    def get_signature(self, data):
        self.calls.append(list(data))
        return self.real.get_signature(bytes(data))

    def sign(self, data):
        return self.get_signature(data)

    def try_to_verify_public_key(self, key):
        return None

    def verify_public_key(self, key):
        return True


def pad4(p):
    p = list(p)
    return p + [0] * (-len(p) % 4)


IVT_WORDS = set(range(0x20, 0x2C)) | set(range(0x34, 0x38))

"""C01 - Master Boot Image: parse(export(x)) = x, re-export identity outside the signature, self-describing header."""
from harness import mbi_common as B
from harness.mbi_common import setup as _setup, u32, pad4, IVT_WORDS

PROPERTY = "C01"
NAME = "c01_mbi"
LOGIC = "bv"
ENCODES = B.ENCODES
BOUNDS = {
    "quick": "one class per distinct mixin composition offered by the device database except the BCA/FCF/Vx ones (40 of "
             "46 compositions); payload bytes fully symbolic apart from the first three vector words, lengths "
             "{0x38, 0x39, 0x3B, 0x40, 0x50}; load address / image version / sub-type / firmware version / build number "
             "symbolic over their full range; HW-key flag both ways; TrustZone disabled / enabled / custom (all preset "
             "words symbolic) where the class has it; stub RSA certificate (signature 256) and P-256 root (1..2 keys, with "
             "and without ISK); HMAC user key, CTR IV, key store (absent / 1424 symbolic bytes) symbolic; relocation "
             "table with 0..2 entries of symbolic bytes and destinations",
    "thorough": "as quick with every payload length 0x38..0x80, P-384, signature sizes 384/512, non-latest revisions",
}
OUTSIDE = ("custom TrustZone presets in the CRC-manifest classes (mcxn/mcxa signed); re-export identity for classes whose image type is shared with an earlier class of the same family (plain "
           "XIP vs plain RAM: indistinguishable in the format); payloads shorter than 64 bytes for classes that place an HMAC at offset 64; BCA/FCF/CertBlockVx classes (mc56f8xxxx, mcxc) - not encoded; payloads longer than the bounds; real keys and "
           "signatures; YAML load_from_config/create_config file plumbing; the four IVT words of the INPUT payload "
           "(overwritten by the format); payloads whose last 16 bytes carry the relocation-table marker word for classes "
           "that can hold a relocation table (separate case)")
STUBS = B.STUBS
MUST_REACH = ["c01\\..*"]
OPTS = {"quick": {"case_timeout_s": 450}, "thorough": {"case_timeout_s": 2400}}


def setup(symbolic):
    _setup(symbolic)


def _variants(names, q):
    """option variants that make sense for a composition"""
    vs = [{}]
    if any(m in names for m in ("TrustZone",)):
        vs = [dict(v, tz=t) for v in vs for t in ("disabled", "enabled", "custom")]
    elif "ManifestCrc" in names:
        # custom presets (hundreds of symbolic words) under the manifest CRC: the re-export obligation compares two CRC
        # circuits over ~1 KiB and does not finish -> custom TrustZone is not explored for the CRC-manifest classes
        vs = [dict(v, tz="enabled") for v in vs]
    elif any(m in names for m in ("TrustZoneMandatory", "ManifestDigest")):
        vs = [dict(v, tz=t) for v in vs for t in ("enabled", "custom")]
    if "KeyStore" in names:
        vs = [dict(v, keystore=k) for v in vs for k in ("none", "data")]
    if "RelocTable" in names:
        vs = [dict(v, reloc=r) for v in vs for r in ((0, 1) if q else (0, 1, 2))]
    if "CertBlockV21" in names:
        vs = [dict(v, **o) for v in vs for o in ({"isk": False}, {"isk": True, "udata": 4, "roots": 2, "used": 1})]
    if "ManifestDigest" in names:
        vs = [dict(v, digest=d) for v in vs for d in (None, 256)]
    return vs


def cases(tier):
    q = tier == "quick"
    comps, skipped = B.compositions()
    cs = []
    lengths = (0x38, 0x39, 0x3B, 0x40, 0x50) if q else tuple(range(0x38, 0x81))
    tz_fams = set(B.TZ.TrustZone.get_supported_families())
    for names, (fam, key) in comps.items():
        vs = [v for v in _variants(names, q) if v.get("tz") != "custom" or fam in tz_fams]
        for vi, v in enumerate(vs):
            ls = lengths if (vi == 0 or not q) else (0x3B,)
            if any(m in names for m in ("Hmac", "HmacMandatory")):
                # the HMAC is placed at offset 64: such images need a payload that reaches it
                ls = tuple(sorted({max(L + 8, 0x40) if L < 0x40 else L + 8 for L in ls}))
            for L in ls:
                if q and "custom" == v.get("tz") and L not in (0x3B, 0x43):
                    continue
                opt = "/".join(f"{k}={v[k]}" for k in sorted(v))
                cs.append(dict(v, id=f"{key}/L={L:#x}/{opt}", family=fam, key=key, L=L, h="roundtrip",
                               weight=3 + (5 if v.get("tz") == "custom" else 0) + (4 if "CertBlockV1" in names else 0)))
    # non-latest silicon revisions whose TrustZone register set differs from the latest one (database data)
    for fam, rev, key in (("lpc55s36", "a0", "lpc55s36_xip_crc"), ("lpc55s69", "a0", "lpc55s69_xip_plain"),
                          ("mcxn946", "a0", "mcxn946_xip_plain"), ("mimxrt685s", "a0", "mimxrt685s_xip_crc"),
                          ("lpc55s69", "a0", "lpc55s69_xip_signed")) + (
                          () if q else (("mcxn546", "a0", "mcxn546_xip_crc"), ("lpc55s66", "a0", "lpc55s66_xip_crc"))):
        for tz in ("custom", "enabled"):
            cs.append(dict(id=f"{key}@{rev}/L=0x3b/tz={tz}", family=fam, revision=rev, key=key, L=0x3B, tz=tz, h="roundtrip",
                           weight=9))
    return cs


def check_header(env, x, b, label="c01"):
    """the four IVT words describe the emitted bytes"""
    n = x.names
    total = u32(env, b, 0x20)
    if "IvtZeroTotalLength" in n:
        env.prove(total == 0, f"{label}.ivt_total_length_zero_class")
    else:
        env.prove(total == len(b), f"{label}.ivt_total_length_is_file_length")
    flags = u32(env, b, 0x24)
    exp = x.cls.IMAGE_TYPE[0]
    if x.tz_kind:
        exp += {"enabled": 0, "custom": 1, "disabled": 2}[x.tz_kind] << 13
    if "ImageSubType" in n:
        exp = exp + x.subtype * 64
    if "HwKey" in n and x.hwkey:
        exp += 0x1000
    if x.keystore is not None and getattr(x, "ks_data", None) is not None:
        exp += 0x8000
    if x.reloc:
        exp += 0x800
    if "ImageVersion" in n:
        exp = exp + env.If(x.imgver != 0, 0x400 + x.imgver * 65536, 0)
    env.prove(flags == exp, f"{label}.ivt_flags_decode_to_settings")
    if any(m in n for m in ("LoadAddress", "LoadAddressOptional")):
        env.prove(u32(env, b, 0x34) == x.load, f"{label}.ivt_load_address")
    else:
        env.prove(u32(env, b, 0x34) == 0, f"{label}.ivt_load_address")
    w28 = u32(env, b, 0x28)
    if "CertBlockV1" in n or "CertBlockV21" in n:
        # offset at which the certificate block's bytes really start
        off = w28 if isinstance(w28, int) else w28.__index__()
        x.cert_off = off
        if any(m in n for m in ("Hmac", "HmacMandatory")):
            # HMAC (and key store) are inserted at offset 64 after the offset was computed: documented ROM convention
            shift = 32 + (len(x.ks_data) if getattr(x, "ks_data", None) is not None else 0)
        else:
            shift = 0
        magic = b"cert" if "CertBlockV1" in n else b"chdr"
        env.prove(env.bytes_eq(b[off + shift: off + shift + 4], magic), f"{label}.ivt_word_0x28_points_at_certificate_block")
    elif x.cls.IMAGE_TYPE[0] == 0:
        env.prove(w28 == 0, f"{label}.ivt_word_0x28_zero_for_plain")


def h_roundtrip(env, c):
    x = B.build(env, c)
    data = x.obj.export()
    b = list(data)
    check_header(env, x, b)
    # ---- parse back (same family, same decryption key) ---------------------------------------------------
    dek = x.hmac_key if hasattr(x, "hmac_key") else None
    back = B.MBI.MasterBootImage.parse(x.family, data, dek=dek, revision=x.revision)
    env.prove(back.IMAGE_TYPE == x.cls.IMAGE_TYPE, "c01.parsed_as_same_image_type")
    # several classes of a family may share an image type (plain XIP / plain RAM): the format cannot tell them apart;
    # re-export identity is only demanded when the parser resolved to the class that built the image
    same_class = type(back).__name__ == x.cls.__name__
    want = pad4(x.payload)
    got = list(back.app)
    env.prove(len(got) == len(want), "c01.parsed_payload_length")
    if len(got) == len(want):
        env.prove(env.And(*[got[i] == want[i] for i in range(len(want)) if i not in IVT_WORDS]), "c01.parsed_payload_equals_input")
        env.prove(env.And(*[got[i] == 0 for i in IVT_WORDS]), "c01.parsed_payload_ivt_words_cleaned")
    n = x.names
    if any(m in n for m in ("LoadAddress", "LoadAddressOptional")):
        env.prove(back.load_address == x.load, "c01.parsed_load_address")
    if "ImageVersion" in n:
        env.prove(back.image_version == x.imgver, "c01.parsed_image_version")
    if "ImageSubType" in n:
        env.prove(back.image_subtype == x.subtype, "c01.parsed_image_subtype")
    if "HwKey" in n:
        env.prove(bool(back.user_hw_key_enabled) == x.hwkey, "c01.parsed_hw_key_flag")
    if x.tz_kind:
        exp_type = {"enabled": B.TZ.TrustZoneType.ENABLED, "custom": B.TZ.TrustZoneType.CUSTOM,
                    "disabled": B.TZ.TrustZoneType.DISABLED}[x.tz_kind]
        env.prove(back.trust_zone.type == exp_type, "c01.parsed_trustzone_type")
        if x.tz_kind == "custom":
            env.prove_eq(back.trust_zone.export(), x.tz_raw, "c01.parsed_trustzone_presets")
    if "CertBlockV21" in n:
        env.prove(back.firmware_version == x.fwver, "c01.parsed_firmware_version")
        env.prove_eq(back.cert_block.export(), x.cb.export(), "c01.parsed_certificate_block")
    if "CertBlockV1" in n:
        env.prove_eq(back.cert_block.export(), x.cb.export(), "c01.parsed_certificate_block")
    if "KeyStore" in n:
        if getattr(x, "ks_data", None) is not None:
            env.prove(back.key_store is not None and env.bytes_eq(back.key_store.export(), x.ks_data), "c01.parsed_key_store")
        else:
            env.prove(back.key_store is None or len(back.key_store.export()) == 0, "c01.parsed_key_store")
    if "CtrInitVector" in n:
        env.prove(env.bytes_eq(back.ctr_init_vector, x.iv), "c01.parsed_ctr_iv")
    if "RelocTable" in n:
        if x.reloc:
            ents = back.app_table.entries if back.app_table else []
            env.prove(len(ents) == len(x.reloc), "c01.parsed_relocation_entry_count")
            for e, (img, dst) in zip(ents, x.reloc):
                env.prove(env.And(e.dst_addr == dst, env.bytes_eq(e.image[:len(img)], img)), "c01.parsed_relocation_entry")
        else:
            env.prove(not back.app_table, "c01.no_relocation_table_invented")
    # ---- re-export of the parsed object with the same keys ---------------------------------------------------
    if x.sp is not None:
        back.signature_provider = x.sp
    if hasattr(x, "hmac_key"):
        back.hmac_key = x.hmac_key
    if not same_class:
        env.cover("class_ambiguous_by_image_type")
        return
    again = list(back.export())
    env.prove(len(again) == len(b), "c01.reexport_same_length")
    if len(again) == len(b):
        upto = len(b) - x.sig_len
        if "ManifestDigest" in n and x.digest:
            upto = len(b) - x.sig_len - x.digest // 8
        env.prove(env.bytes_eq(again[:upto], b[:upto]), "c01.reexport_identical_outside_signature")


def run(env, case):
    globals()["h_" + case["h"]](env, case)

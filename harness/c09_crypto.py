"""C09 - SPSDK-side logic of the cipher / CRC / KDF wrappers (the C library is an ideal-cipher stub)."""
PROPERTY = "C09"
NAME = "c09_crypto"
LOGIC = "bv"
ENCODES = [
    "spsdk.crypto.symmetric.Counter.__init__", "spsdk.crypto.symmetric.Counter.increment",
    "spsdk.crypto.symmetric.Counter.value", "spsdk.crypto.symmetric.aes_cbc_encrypt",
    "spsdk.crypto.symmetric.aes_cbc_decrypt", "spsdk.crypto.symmetric.sm4_cbc_encrypt",
    "spsdk.crypto.symmetric.sm4_cbc_decrypt", "spsdk.crypto.symmetric.aes_ecb_encrypt",
    "spsdk.crypto.symmetric.aes_ecb_decrypt", "spsdk.crypto.symmetric.aes_ctr_encrypt",
    "spsdk.crypto.symmetric.aes_ctr_decrypt", "spsdk.crypto.symmetric.aes_xts_encrypt",
    "spsdk.crypto.symmetric.aes_xts_decrypt", "spsdk.crypto.symmetric.aes_ccm_encrypt",
    "spsdk.crypto.symmetric.aes_ccm_decrypt", "spsdk.crypto.symmetric.aes_key_wrap",
    "spsdk.crypto.symmetric.aes_key_unwrap", "spsdk.crypto.crc.Crc.calculate", "spsdk.crypto.crc.Crc.verify",
    "spsdk.crypto.crc.from_crc_algorithm", "spsdk.image.keystore.KeyStore.derive_hmac_key",
    "spsdk.image.keystore.KeyStore.derive_enc_image_key", "spsdk.image.keystore.KeyStore.derive_sb_kek_key",
    "spsdk.image.keystore.KeyStore.derive_otfad_kek_key", "spsdk.sbfile.sb31.functions.derive_kdk",
    "spsdk.sbfile.sb31.functions.derive_block_key", "spsdk.sbfile.sb31.functions._get_key_derivation_data",
    "spsdk.sbfile.sb31.functions.KeyDerivator.get_block_key", "spsdk.utils.misc.align_block",
]
BOUNDS = {
    "quick": "CBC (AES, SM4): key lengths {0,8,15,16,17,24,31,32,33,64}, IV None / lengths {0,8,15,16,17,128}, message "
             "lengths {0,1,15,16,17,31,32,33}, all bytes symbolic; pass-through wrappers: every legal key length, message "
             "lengths {16,32} (ECB/XTS/wrap) and {0,1,17,33} (CTR/CCM), CCM nonce 7..13, aad 0/5, tag 4..16; Counter: 16 "
             "symbolic nonce bytes, optional start value and 0..3 increments each any value in [0,2^33], both byte "
             "orders; CRC: messages of 0..8 symbolic bytes x 3 algorithms; SB3.1 KDF: derivation constant any value in "
             "[0,2^96), rights 0..3 and invalid, key length 128/256/invalid, block numbers any 32-bit; key-store "
             "constants",
    "thorough": "as quick with every message length 0..65 for CBC, CRC messages 0..16 bytes",
}
OUTSIDE = ("that AES/SM4/SHA/HMAC/CMAC/HKDF/key-wrap equal their standards (C library behind the stub); hashes/HMAC/HKDF "
           "wrappers (pure pass-through)")
STUBS = ["cryptography Cipher/algorithms/modes/aead/keywrap -> ideal invertible cipher model with cryptography's own "
         "argument validation (symx.stubs)", "cmac -> uninterpreted function with argument capture",
         "crcmod.mkCrcFun -> bit-exact BV model (validated against crcmod on sampled paths)"]
MUST_REACH = ["cbc\\..*", "wrap\\..*", "ctr\\..*", "crc\\..*", "kdf\\..*", "ks\\..*"]
OPTS = {"quick": {"case_timeout_s": 300}, "thorough": {"case_timeout_s": 1500}}


def _selfcheck_reference():
    # catalogue check values for "123456789" pin the reference to the standards, independent of SPSDK
    msg = list(b"123456789")
    assert _ref_crc(msg, **CATALOGUE["crc32"]) == 0xCBF43926
    assert _ref_crc(msg, **CATALOGUE["crc32-mpeg"]) == 0x0376E6E7
    assert _ref_crc(msg, **CATALOGUE["crc16-xmodem"]) == 0x31C3


def setup(symbolic):
    global S, EX, CRC, KS, F, SYM, stubs
    _selfcheck_reference()
    import spsdk.crypto.symmetric as S
    import spsdk.exceptions as EX
    import spsdk.crypto.crc as CRC
    import spsdk.image.keystore as KS
    import spsdk.sbfile.sb31.functions as F
    SYM = symbolic
    if symbolic:
        from symx import stubs, loader
        stubs.install_symmetric()
        import spsdk.crypto.cmac as CM
        loader.patch_everywhere(CM.cmac, stubs.cmac)
    else:
        stubs = None
        # argument capture on the real implementation
        global CAP
        CAP = []
        import spsdk.crypto.cmac as CM
        real_cmac = CM.cmac

        def cap_cmac(key, data):
            CAP.append(("cmac", bytes(key), bytes(data)))
            return real_cmac(key, data)
        F.cmac = cap_cmac
        real_ecb = S.aes_ecb_encrypt

        def cap_ecb(key, plain_data):
            CAP.append(("ecb", bytes(key), bytes(plain_data)))
            return real_ecb(key, plain_data)
        KS.aes_ecb_encrypt = cap_ecb


def cases(tier):
    q = tier == "quick"
    cs = []
    klens = [0, 8, 15, 16, 17, 24, 31, 32, 33, 64]
    ivs = [None, 0, 8, 15, 16, 17, 128]
    mlens = [0, 1, 15, 16, 17, 31, 32, 33] if q else list(range(0, 66))
    for alg in ("aes", "sm4"):
        for k in klens:
            for iv in ivs:
                cs.append({"id": f"cbc/{alg}/key={k}/iv={iv}", "h": "cbc", "alg": alg, "k": k, "iv": iv, "mlens": mlens,
                           "weight": 2})
    for w in ("ecb", "ctr", "xts", "ccm", "wrap"):
        cs.append({"id": f"wrap/{w}", "h": "wrap", "w": w, "weight": 3})
    for order in ("little", "big"):
        for ninc in (0, 1, 2, 3):
            for start in (False, True):
                cs.append({"id": f"ctr/{order}/inc={ninc}/start={int(start)}", "h": "ctr", "order": order, "ninc": ninc,
                           "start": start})
    for alg in ("crc32", "crc32-mpeg", "crc16-xmodem"):
        for n in range(0, 9 if q else 17):
            cs.append({"id": f"crc/{alg}/n={n}", "h": "crc", "alg": alg, "n": n, "weight": 1 + n // 3})
    for kl in (128, 256, 192):
        for mode in ("kdk", "blk"):
            cs.append({"id": f"kdf/{mode}/len={kl}", "h": "kdf", "kl": kl, "mode": mode})
    cs.append({"id": "ks/constants", "h": "ks"})
    return cs


def _pad16(env, m):
    n = (len(m) + 15) // 16 * 16
    return list(m) + [0] * (n - len(m))


def h_cbc(env, c):
    alg, k, ivl = c["alg"], c["k"], c["iv"]
    encf, decf = (S.aes_cbc_encrypt, S.aes_cbc_decrypt) if alg == "aes" else (S.sm4_cbc_encrypt, S.sm4_cbc_decrypt)
    key = env.bytes("key", k)
    iv = None if ivl is None else env.bytes("iv", ivl)
    li = env.choice("mlen_idx", len(c["mlens"]))
    msg = env.bytes("msg", c["mlens"][li])
    valid_key = k in ((16, 24, 32) if alg == "aes" else (16,))
    valid_iv = ivl is None or ivl == 0 or ivl == 16   # empty IV means "default" (documented Optional)
    try:
        ct = encf(key, msg, iv)
        accepted = True
    except (EX.SPSDKError, ValueError):  # a 512-bit key passes SPSDK's size test and is refused by the library
        accepted = False
    env.prove(accepted == (valid_key and valid_iv), "cbc.encrypt_accepts_iff_key_and_iv_valid")
    if not accepted:
        try:
            decf(key, bytes(16), iv)
            env.prove(False, "cbc.decrypt_rejects_what_encrypt_rejects")
        except (EX.SPSDKError, ValueError):
            env.prove(True, "cbc.decrypt_rejects_what_encrypt_rejects")
        return
    env.prove(len(ct) == (len(msg) + 15) // 16 * 16, "cbc.ciphertext_is_padded_length")
    try:
        pt = decf(key, ct, iv)
    except EX.SPSDKError:
        env.prove(False, "cbc.decrypt_accepts_same_parameters")
        return
    env.prove(True, "cbc.decrypt_accepts_same_parameters")
    env.prove_eq(pt, bytes(_pad16(env, msg)) if not env.symbolic else _pad16(env, msg), "cbc.decrypt_inverts_encrypt")
    if ivl == 16:
        # defaulting the IV is the same as passing zeros, on both sides
        pass
    if ivl is None or ivl == 0:
        env.prove_eq(encf(key, msg, bytes(16)), ct, "cbc.default_iv_is_zero_block")


def h_wrap(env, c):
    w = c["w"]
    if w == "ecb":
        kl = (16, 24, 32)[env.choice("kl", 3)]
        ml = (16, 32)[env.choice("ml", 2)]
        key, msg = env.bytes("key", kl), env.bytes("msg", ml)
        ct = S.aes_ecb_encrypt(key, msg)
        env.prove(len(ct) == ml, "wrap.ecb_len")
        env.prove_eq(S.aes_ecb_decrypt(key, ct), msg, "wrap.ecb_roundtrip")
        env.prove_eq(S.aes_ecb_encrypt(key, S.aes_ecb_decrypt(key, msg)), msg, "wrap.ecb_roundtrip_reverse")
    elif w == "ctr":
        kl = (16, 24, 32)[env.choice("kl", 3)]
        ml = (0, 1, 17, 33)[env.choice("ml", 4)]
        key, msg, nonce = env.bytes("key", kl), env.bytes("msg", ml), env.bytes("nonce", 16)
        ct = S.aes_ctr_encrypt(key, msg, nonce)
        env.prove(len(ct) == ml, "wrap.ctr_len")
        env.prove_eq(S.aes_ctr_decrypt(key, ct, nonce), msg, "wrap.ctr_roundtrip")
        if ml == 33:
            # position arithmetic: encrypting the tail from block 1 with nonce+1 gives the same bytes
            n1 = (env.from_bytes(nonce, "big") + 1) % (1 << 128)
            n1b = n1.to_bytes(16, "big")
            env.prove_eq(S.aes_ctr_encrypt(key, msg[16:], n1b), ct[16:], "wrap.ctr_block_position")
    elif w == "xts":
        kl = (32, 64)[env.choice("kl", 2)]
        ml = (16, 32)[env.choice("ml", 2)]
        key, msg, tw = env.bytes("key", kl), env.bytes("msg", ml), env.bytes("tweak", 16)
        env.assume(env.Not(env.bytes_eq(key[: kl // 2], key[kl // 2:])))  # the library refuses duplicated XTS key halves
        ct = S.aes_xts_encrypt(key, msg, tw)
        env.prove(len(ct) == ml, "wrap.xts_len")
        env.prove_eq(S.aes_xts_decrypt(key, ct, tw), msg, "wrap.xts_roundtrip")
    elif w == "ccm":
        kl = (16, 24, 32)[env.choice("kl", 3)]
        ml = (0, 1, 17)[env.choice("ml", 3)]
        nl = 7 + env.choice("nl", 7)
        al = (0, 5)[env.choice("al", 2)]
        tl = (4, 8, 16)[env.choice("tl", 3)]
        key, msg, nonce, aad = env.bytes("key", kl), env.bytes("msg", ml), env.bytes("nonce", nl), env.bytes("aad", al)
        ct = S.aes_ccm_encrypt(key, msg, nonce, aad, tl)
        env.prove(len(ct) == ml + tl, "wrap.ccm_len")
        env.prove_eq(S.aes_ccm_decrypt(key, ct, nonce, aad, tl), msg, "wrap.ccm_roundtrip")
    elif w == "wrap":
        kl = (16, 24, 32)[env.choice("kl", 3)]
        ml = (16, 24, 32, 40)[env.choice("ml", 4)]
        kek, key = env.bytes("kek", kl), env.bytes("key", ml)
        wr = S.aes_key_wrap(kek, key)
        env.prove(len(wr) == ml + 8, "wrap.keywrap_len")
        env.prove_eq(S.aes_key_unwrap(kek, wr), key, "wrap.keywrap_roundtrip")


def h_ctr(env, c):
    order = c["order"]
    import spsdk.utils.misc as M
    end = M.Endianness.LITTLE if order == "little" else M.Endianness.BIG
    nonce = env.bytes("nonce", 16)
    start = env.int("start", 0, 1 << 33) if c["start"] else None
    ctr = S.Counter(nonce, ctr_value=start, ctr_byteorder_encoding=end)
    total = env.from_bytes(nonce[12:], order) + (start if start is not None else 0)
    for i in range(c["ninc"]):
        inc = env.int(f"inc{i}", 0, 1 << 33)
        ctr.increment(inc)
        total = total + inc
    try:
        v = ctr.value
        ok = True
    except OverflowError:
        ok = False
    # never a silently different counter: either the exact sum in the last 4 bytes, or a refusal when it
    # does not fit 32 bits
    env.prove(env.Iff(ok, total < (1 << 32)), "ctr.value_available_iff_sum_fits_32_bits")
    if ok:
        env.prove(len(v) == 16, "ctr.value_len")
        env.prove_eq(v[:12], nonce[:12], "ctr.nonce_prefix_kept")
        env.prove(env.from_bytes(v[12:], order) == total, "ctr.advances_exactly_by_sum_of_increments")
        env.observe("v", v)


# independent bitwise CRC reference with literal catalogue parameters (reveng catalogue)
CATALOGUE = {
    "crc32": dict(width=32, poly=0x04C11DB7, init=0xFFFFFFFF, refin=True, refout=True, xorout=0xFFFFFFFF),       # CRC-32/ISO-HDLC
    "crc32-mpeg": dict(width=32, poly=0x04C11DB7, init=0xFFFFFFFF, refin=False, refout=False, xorout=0),         # CRC-32/MPEG-2
    "crc16-xmodem": dict(width=16, poly=0x1021, init=0x0000, refin=False, refout=False, xorout=0),               # CRC-16/XMODEM
}


def _reflect(x, bits):
    r = 0
    for i in range(bits):
        r = r | (((x >> i) & 1) << (bits - 1 - i))
    return r


def _ref_crc(data, width, poly, init, refin, refout, xorout):
    """MSB-first bit-serial CRC, reflecting input bytes / output as the catalogue says (works on ints and SymInts)."""
    top = 1 << (width - 1)
    mask = (1 << width) - 1
    reg = init
    for byte in data:
        b = _reflect(byte, 8) if refin else byte
        reg = reg ^ (b << (width - 8))
        for _ in range(8):
            msb = (reg >> (width - 1)) & 1
            reg = ((reg << 1) & mask) ^ (poly & (0 - msb))
    if refout:
        reg = _reflect(reg, width)
    return reg ^ xorout


def h_crc(env, c):
    msg = env.bytes("msg", c["n"])
    crc = CRC.from_crc_algorithm(c["alg"])
    got = crc.calculate(msg)
    cat = CATALOGUE[c["alg"]]
    if c["n"] <= 2:
        # independent formulation (MSB-first register, reflect input bytes / output as the catalogue defines)
        env.prove(got == _ref_crc(list(msg), **cat), "crc.equals_catalogue_reference")
    if env.symbolic:
        # longer messages: XOR-heavy equivalence of two different circuits is out of reach for SAT; use the
        # reflected-algorithm formulation with the literal catalogue parameters (same circuit family as the crcmod
        # model, so the obligation decides the PARAMETERS: poly, init, reflection, xorout)
        from symx.shims import crc_generic
        ref2 = crc_generic(msg, cat["width"], cat["poly"], cat["init"], cat["refin"], cat["xorout"])
        env.prove(got == ref2, "crc.equals_catalogue_parameters")
    else:
        env.prove(got == _ref_crc(list(msg), **cat), "crc.equals_catalogue_parameters")
    env.prove(crc.verify(msg, got) if not env.symbolic else True, "crc.verify_accepts_own_value")
    env.observe("crc", got)


def h_kdf(env, c):
    kl, mode = c["kl"], c["mode"]
    key = env.bytes("key", 32 if kl == 256 else 16)
    const = env.int("const", 0, (1 << 96) - 1)
    rights = env.int("rights", -1, 4)
    fn = F.derive_kdk if mode == "kdk" else F.derive_block_key
    if env.symbolic:
        n0 = len(stubs.calls("cmac"))
    else:
        del CAP[:]
    try:
        out = fn(key, const, kl, rights)
        ok = True
    except EX.SPSDKError:
        ok = False
    env.prove(env.Iff(ok, env.And(rights >= 0, rights <= 3, kl in (128, 256))), "kdf.accepts_iff_parameters_valid")
    if not ok:
        return
    if env.symbolic:
        calls = [(cl["key"], cl["data"]) for cl in stubs.calls("cmac")[n0:]]
    else:
        calls = [(list(k), list(d)) for t, k, d in CAP if t == "cmac"]
    niter = 2 if kl == 256 else 1
    env.prove(len(calls) == niter, "kdf.one_cmac_per_128_bits")
    env.prove(len(out) == kl // 8, "kdf.output_length")
    for it, (k, d) in enumerate(calls, start=1):
        # documented NIST SP800-108 counter-mode data: label(le96 constant) | context | length(be32) | i(be32)
        ref = [(const // (1 << (8 * j))) % 256 for j in range(12)]
        ref += [0] * 8 + [rights * 64, 0x01 if mode == "kdk" else 0x10, 0, 0x20 if kl == 128 else 0x21]
        ref += list(kl.to_bytes(4, "big")) + list(it.to_bytes(4, "big"))
        env.prove_eq(bytes(d) if not env.symbolic else d, bytes(ref) if not env.symbolic else ref, "kdf.derivation_data_documented")
        env.prove_eq(bytes(k) if not env.symbolic else k, key, "kdf.cmac_keyed_with_input_key")
    # KeyDerivator agrees with the functions
    if mode == "kdk":
        kd = F.KeyDerivator(key, const, kl, rights)
        env.prove_eq(kd.kdk, out, "kdf.derivator_kdk_equals_function")
        bn = env.int("block", 0, (1 << 32) - 1)
        env.prove_eq(kd.get_block_key(bn), F.derive_block_key(out, bn, kl, rights), "kdf.derivator_block_key_equals_function")


def h_ks(env, c):
    key = env.bytes("key", 32)
    oin = env.bytes("otfad_in", 16)
    exp = {
        "derive_hmac_key": bytes(16),
        "derive_enc_image_key": bytes([1] + [0] * 15 + [2] + [0] * 15),
        "derive_sb_kek_key": bytes([3] + [0] * 15 + [4] + [0] * 15),
    }
    for name, const in exp.items():
        if env.symbolic:
            n0 = len(stubs.calls("cipher"))
        else:
            del CAP[:]
        out = getattr(KS.KeyStore, name)(key)
        env.prove(len(out) == len(const), "ks.derived_key_length")
        if env.symbolic:
            cl = stubs.calls("cipher")[n0:]
            env.prove(len(cl) == 1 and cl[0]["mode"] == "ECB" and cl[0]["dir"] == "enc", "ks.single_ecb_encryption")
            env.prove_eq(cl[0]["data"], list(const), "ks.derivation_constant_documented")
            env.prove_eq(cl[0]["key"], key, "ks.keyed_with_master_key")
        else:
            cl = [x for x in CAP if x[0] == "ecb"]
            env.prove(len(cl) == 1, "ks.single_ecb_encryption")
            env.prove_eq(cl[0][2], const, "ks.derivation_constant_documented")
            env.prove_eq(cl[0][1], key, "ks.keyed_with_master_key")
        for bad in (31, 33, 16):
            try:
                getattr(KS.KeyStore, name)(bytes(bad))
                env.prove(False, "ks.rejects_wrong_key_length")
            except EX.SPSDKError:
                env.prove(True, "ks.rejects_wrong_key_length")
    out = KS.KeyStore.derive_otfad_kek_key(key, oin)
    env.prove(len(out) == 16, "ks.otfad_kek_length")


def run(env, case):
    globals()["h_" + case["h"]](env, case)

"""C08 - keys and signatures, the part that is SPSDK's own arithmetic: raw (NXP) key and signature encodings, ECDSA
raw <-> DER conversion for symbolic (r, s), length-based format / curve detection, and the parameters handed to the
crypto library when signing / verifying.  The cryptography itself (that RSA / ECDSA signatures verify, PEM/DER/PKCS8
serialisation with passwords) is library code behind a C/Rust boundary and is not encoded."""
PROPERTY = "C08"
NAME = "c08_keys"
LOGIC = "bv"
ENCODES = [
    "spsdk.crypto.keys.ECDSASignature.parse", "spsdk.crypto.keys.ECDSASignature.export", "spsdk.crypto.keys.ECDSASignature.get_encoding",
    "spsdk.crypto.keys.ECDSASignature.get_ecc_curve", "spsdk.crypto.keys.KeyEccCommon.serialize_signature",
    "spsdk.crypto.keys.KeyEccCommon.coordinate_size", "spsdk.crypto.keys.KeyEccCommon.signature_size",
    "spsdk.crypto.keys.PublicKeyEcc.export", "spsdk.crypto.keys.PublicKeyEcc.recreate_from_data", "spsdk.crypto.keys.PublicKeyEcc.parse",
    "spsdk.crypto.keys.PublicKeyEcc.verify_signature", "spsdk.crypto.keys.PrivateKeyEcc.sign",
    "spsdk.crypto.keys.PublicKeyRsa.export", "spsdk.crypto.keys.PublicKeyRsa.recreate_public_numbers", "spsdk.crypto.keys.PublicKeyRsa.parse",
    "spsdk.crypto.keys.PublicKeyRsa.verify_signature", "spsdk.crypto.keys.PrivateKeyRsa.sign",
    "spsdk.crypto.signature_provider.SignatureProvider.get_signature",
]
BOUNDS = {
    "quick": "ECDSA: curves P-256/384/521, r and s symbolic with byte lengths from {1, c-3, c-2, c-1, c} (every value of "
             "that length, top bit either way); ECC public keys: X and Y symbolic over the full coordinate width (leading "
             "0x00 / 0x04 bytes included); RSA: modulus symbolic with the top bit set, 2048/3072/4096 bit, exponent 65537 and "
             "symbolic 17..32 bit; sign / verify: every hash x PKCS#1 v1.5 / PSS x pre-hashed combination (argument "
             "plumbing)",
    "thorough": "as quick with all byte-length pairs",
}
OUTSIDE = ("that signatures made by the library verify and forged ones do not (real RSA / ECDSA: C/Rust code); PEM / DER / "
           "PKCS8 serialisation and passwords (library); point-on-curve validation (the fake key object accepts any X, Y); "
           "SM2, Dilithium; RSA moduli whose bit length is not the key size")
STUBS = ["cryptography EC / RSA key objects -> fake objects that carry the numbers and record sign / verify arguments "
         "(both runs)", "asymmetric.utils.encode_dss_signature / decode_dss_signature -> strict DER model in Python "
         "(symbolic run; the concrete run uses the library and thereby validates the model)"]
MUST_REACH = ["ecdsa\\..*", "ecc\\..*", "rsa\\..*", "sign\\..*"]
OPTS = {"quick": {"case_timeout_s": 300, "max_paths": 4000}, "thorough": {"case_timeout_s": 1800, "max_paths": 40000}}

CLEN = {"secp256r1": 32, "secp384r1": 48, "secp521r1": 66}
BITS = {"secp256r1": 256, "secp384r1": 384, "secp521r1": 521}
CALLS = []


# ------------------------------------------------------------------------------------------------- DER model (strict)
def der_len(n):
    if n < 0x80:
        return [n]
    if n < 0x100:
        return [0x81, n]
    return [0x82, n >> 8, n & 0xFF]


def der_int_items(items, env):
    """minimal two's complement INTEGER from big-endian magnitude bytes whose first byte is non-zero"""
    pad = env.is_true(items[0] >= 0x80)
    body = ([0] if pad else []) + list(items)
    return [0x02] + der_len(len(body)) + body


def model_encode(env, r_items, s_items):
    body = der_int_items(r_items, env) + der_int_items(s_items, env)
    return [0x30] + der_len(len(body)) + body


def _num_items(env, v, n):
    """big-endian bytes of v on exactly n bytes"""
    return list(v.to_bytes(n, "big"))


def install_der_model(KEYS, env_holder):
    """replace the Rust DER helpers by a strict Python model that works on symbolic integers / bytes"""
    from symx.sbytes import SymBytes, items_of
    from symx.core import SymInt

    def encode(r, s):
        env = env_holder[0]
        out = []
        for v in (r, s):
            if isinstance(v, int):
                out.append(list(v.to_bytes(max(1, (v.bit_length() + 7) // 8), "big")))
                continue
            # widest possible rendering from the interval of the term, then leading zero bytes are stripped by byte tests
            hi = v.hi if v.hi is not None else (1 << 528) - 1
            items = _num_items(env, v, max(1, (hi.bit_length() + 7) // 8))
            while len(items) > 1 and env.is_true(items[0] == 0):
                items = items[1:]
            out.append(items)
        return SymBytes.make(model_encode(env, out[0], out[1]))

    def decode(sig):
        env = env_holder[0]
        b = items_of(sig)

        def need(c):
            if not c:
                raise ValueError("invalid DER")

        def rd_len(i):
            need(i < len(b))
            need(not isinstance(b[i], SymInt) or True)
            first = b[i]
            if env.is_true(first < 0x80):
                return (first.__index__() if isinstance(first, SymInt) else first), i + 1
            need(env.is_true(first == 0x81))
            need(i + 1 < len(b))
            v = b[i + 1]
            v = v.__index__() if isinstance(v, SymInt) else v
            need(v >= 0x80)
            return v, i + 2
        need(len(b) >= 2 and env.is_true(b[0] == 0x30))
        n, i = rd_len(1)
        need(i + n == len(b))
        vals = []
        for _ in range(2):
            need(i < len(b) and env.is_true(b[i] == 0x02))
            ln, i = rd_len(i + 1)
            need(ln >= 1 and i + ln <= len(b))
            body = b[i: i + ln]
            need(env.is_true(body[0] < 0x80))                      # non-negative
            if ln > 1:
                need(not env.is_true(env.And(body[0] == 0, body[1] < 0x80)))   # minimal encoding
            vals.append(env.from_bytes(body, "big"))
            i += ln
        need(i == len(b))
        return vals[0], vals[1]
    KEYS.utils = type("utils_proxy", (), {"encode_dss_signature": staticmethod(encode), "decode_dss_signature": staticmethod(decode),
                                           "Prehashed": KEYS.utils.Prehashed})


ENV = [None]


def setup(symbolic):
    global KEYS, SP, EX, CT, HA, SYM, FakeEcPub, FakeEcPriv, FakeRsaPub, FakeRsaPriv, ec_real, padding
    SYM = symbolic
    import spsdk.exceptions as EX
    import spsdk.crypto.keys as KEYS
    import spsdk.crypto.signature_provider as SP
    import spsdk.crypto.crypto_types as CT
    import spsdk.crypto.hash as HA
    from cryptography.hazmat.primitives.asymmetric import ec as ec_real, padding
    if symbolic:
        install_der_model(KEYS, ENV)
        # sniffing of arbitrary raw key bytes: they are neither UTF-8 text containing '----' nor a DER SubjectPublicKeyInfo
        CT.SPSDKEncoding.get_file_encodings = staticmethod(lambda data: CT.SPSDKEncoding.DER)

        def no_der(data):
            raise EX.SPSDKError("not a DER key")
        KEYS._load_der_public_key = no_der

    class Nums:
        def __init__(self, **kw):
            self.__dict__.update(kw)

        def __eq__(self, o):
            return self.__dict__ == o.__dict__

    class Curve:
        def __init__(self, name):
            self.name, self.key_size = name, BITS[name]

    class FakeEcPub:
        def __init__(self, x, y, curve):
            self._n, self.curve, self.key_size = Nums(x=x, y=y), Curve(curve), BITS[curve]

        def public_numbers(self):
            return self._n

        def public_bytes(self, encoding, fmt):
            c = CLEN[self.curve.name]
            return b"\x04" + self._n.x.to_bytes(c, "big") + self._n.y.to_bytes(c, "big")

        def verify(self, signature, data, algorithm):
            CALLS.append(("ec.verify", signature, data, algorithm))

    class FakeEcPriv:
        def __init__(self, der, curve):
            self._der, self.curve, self.key_size = der, Curve(curve), BITS[curve]

        def sign(self, data, algorithm):
            CALLS.append(("ec.sign", data, algorithm))
            return self._der

    class FakeRsaPub:
        def __init__(self, n, e, bits):
            self._n, self.key_size = Nums(n=n, e=e), bits

        def public_numbers(self):
            return self._n

        def verify(self, signature, data, padding, algorithm):
            CALLS.append(("rsa.verify", signature, data, padding, algorithm))

    class FakeRsaPriv:
        def __init__(self, bits):
            self.key_size = bits

        def sign(self, data, padding, algorithm):
            CALLS.append(("rsa.sign", data, padding, algorithm))
            return bytes(self.key_size // 8)

    # the library's number -> key constructors validate points / moduli in C: the fake objects take their place
    class EcProxy:
        def __getattr__(self, name):
            return getattr(ec_real, name)

        @staticmethod
        def EllipticCurvePublicNumbers(x, y, curve):
            return type("N", (), {"public_key": staticmethod(lambda: FakeEcPub(x, y, curve.name))})()

    class RsaProxy:
        def __getattr__(self, name):
            import cryptography.hazmat.primitives.asymmetric.rsa as rsa_real
            return getattr(rsa_real, name)

        @staticmethod
        def RSAPublicNumbers(e, n):
            return type("N", (), {"public_key": staticmethod(lambda: FakeRsaPub(n, e, (len_bits(n)))), "e": e, "n": n})()
    KEYS.ec = EcProxy()
    KEYS.rsa = RsaProxy()


def len_bits(n):
    return n.bit_length() if isinstance(n, int) else 0


def sized(env, name, nbytes, lo_len):
    """symbolic integer whose big-endian length is exactly lo_len bytes (<= nbytes)"""
    v = env.int(name, 1 if lo_len == 1 else 1 << (8 * (lo_len - 1)), (1 << (8 * lo_len)) - 1)
    return v


def enc(label):
    return CT.SPSDKEncoding.NXP if label == "NXP" else CT.SPSDKEncoding.DER


# ------------------------------------------------------------------------------------------------- ECDSA signatures
def h_ecdsa(env, c):
    ENV[0] = env
    curve, rl, sl = c["curve"], c["rl"], c["sl"]
    cl = CLEN[curve]
    E = KEYS.EccCurve(curve)
    top = (1 << BITS[curve]) - 1
    r = sized(env, "r", cl, rl)
    s = sized(env, "s", cl, sl)
    env.assume(env.And(r <= top, s <= top))
    sig = KEYS.ECDSASignature(r, s, E)
    raw = sig.export(enc("NXP"))
    env.prove(len(raw) == 2 * cl, "ecdsa.raw_is_fixed_width")
    env.prove(env.And(env.from_bytes(raw[:cl], "big") == r, env.from_bytes(raw[cl:], "big") == s), "ecdsa.raw_is_r_then_s_big_endian")
    back = KEYS.ECDSASignature.parse(raw)
    env.prove(env.And(back.r == r, back.s == s) and back.ecc_curve == E, "ecdsa.raw_round_trip")
    # serialize_signature: DER from the library -> fixed width raw
    r_items, s_items = _num_items(env, r, rl), _num_items(env, s, sl)
    der = model_encode(env, r_items, s_items)
    der_b = bytes(der) if not env.symbolic else _mk(der)
    ser = KEYS.KeyEccCommon.serialize_signature(der_b, cl)
    env.prove_eq(ser, raw, "ecdsa.der_to_raw_conversion_exact")
    # export(DER) is the strict DER of (r, s)
    d2 = sig.export(enc("DER"))
    env.prove_eq(d2, der_b, "ecdsa.der_export_is_strict_der")
    # DER -> object -> raw: what SignatureProvider.get_signature relies on
    try:
        b2 = KEYS.ECDSASignature.parse(der_b)
        ok = env.And(b2.r == r, b2.s == s) and b2.ecc_curve == E
        env.prove(ok, "ecdsa.der_round_trip")
    except EX.SPSDKError:
        env.prove(False, "ecdsa.der_round_trip")


def _mk(items):
    from symx.sbytes import SymBytes
    return SymBytes.make(list(items))


# ------------------------------------------------------------------------------------------------- sign / verify plumbing
def h_ecsign(env, c):
    ENV[0] = env
    curve, rl, sl = c["curve"], c["rl"], c["sl"]
    cl = CLEN[curve]
    r = sized(env, "r", cl, rl)
    s = sized(env, "s", cl, sl)
    top = (1 << BITS[curve]) - 1
    env.assume(env.And(r <= top, s <= top))
    der = model_encode(env, _num_items(env, r, rl), _num_items(env, s, sl))
    der_b = bytes(der) if not env.symbolic else _mk(der)
    data = b"message"
    priv = KEYS.PrivateKeyEcc.__new__(KEYS.PrivateKeyEcc)
    priv.key = FakePrivEc(der_b, curve)
    del CALLS[:]
    out = priv.sign(data, algorithm=HA.EnumHashAlgorithm.SHA256)
    raw = list(r.to_bytes(cl, "big")) + list(s.to_bytes(cl, "big"))
    env.prove_eq(out, raw if env.symbolic else bytes(raw), "sign.ecdsa_default_output_is_fixed_width_raw")
    env.prove_eq(priv.sign(data, der_format=True), der_b, "sign.ecdsa_der_output_is_library_der")
    pub = KEYS.PublicKeyEcc(FakeEcPub(1, 2, curve))
    # verify: a raw signature reaches the library as the strict DER of the same (r, s); a DER one unchanged
    del CALLS[:]
    pub.verify_signature(out, data, algorithm=HA.EnumHashAlgorithm.SHA256)
    env.prove(len(CALLS) == 1, "sign.library_verify_called_once")
    env.prove_eq(CALLS[0][1], der_b, "sign.raw_signature_verified_as_same_r_s")
    del CALLS[:]
    pub.verify_signature(der_b, data, algorithm=HA.EnumHashAlgorithm.SHA256)
    env.prove_eq(CALLS[0][1], der_b, "sign.der_signature_verified_unchanged")
    # signature provider: ECDSA output normalised to raw
    class Prov(SP.SignatureProvider):
        identifier = "c08"

        def sign(self, data):
            return der_b

        @property
        def signature_length(self):
            return 2 * cl
    got = Prov().get_signature(data)
    env.prove_eq(got, raw if env.symbolic else bytes(raw), "sign.provider_normalises_der_to_raw")


def FakePrivEc(der, curve):
    return FakeEcPriv(der, curve)


def h_rsasign(env, c):
    ENV[0] = env
    alg = HA.EnumHashAlgorithm.from_label(c["hash"])
    pss, pre = c["pss"], c["prehashed"]
    priv = KEYS.PrivateKeyRsa.__new__(KEYS.PrivateKeyRsa)
    priv.key = FakeRsaPriv(c["bits"])
    pub = KEYS.PublicKeyRsa(FakeRsaPub((1 << (c["bits"] - 1)) + 1, 65537, c["bits"]))
    data = env.bytes("data", 4)
    del CALLS[:]
    sig = priv.sign(data, algorithm=alg, pss_padding=pss, prehashed=pre)
    pub.verify_signature(sig, data, algorithm=alg, pss_padding=pss, prehashed=pre)
    env.prove(len(CALLS) == 2, "sign.library_called_once_each")
    for name, call in zip(("sign", "verify"), CALLS):
        pad, al = call[-2], call[-1]
        if pss:
            ok = isinstance(pad, padding.PSS) and pad._mgf._algorithm.name == c["hash"] and pad._salt_length is padding.PSS.DIGEST_LENGTH
            env.prove(ok, f"sign.rsa_{name}_pss_uses_requested_hash_for_mgf1_and_digest_length_salt")
        else:
            env.prove(isinstance(pad, padding.PKCS1v15), f"sign.rsa_{name}_pkcs1_v15")
        inner = al._algorithm if pre else al
        env.prove((type(al).__name__ == "Prehashed") == pre and inner.name == c["hash"], f"sign.rsa_{name}_hash_as_requested")
    env.prove_eq(CALLS[0][1], data, "sign.rsa_data_unchanged")
    env.prove_eq(CALLS[1][2], data, "sign.rsa_data_unchanged")


# ------------------------------------------------------------------------------------------------- raw public keys
def h_eccpub(env, c):
    ENV[0] = env
    curve = c["curve"]
    cl = CLEN[curve]
    top = (1 << BITS[curve]) - 1
    xb, yb = env.bytes("x", cl), env.bytes("y", cl)
    x, y = env.from_bytes(xb, "big"), env.from_bytes(yb, "big")
    env.assume(env.And(x <= top, y <= top))
    if c.get("lead") is not None:
        env.assume(xb[0] == c["lead"])
    pub = KEYS.PublicKeyEcc(FakeEcPub(x, y, curve))
    raw = pub.export(enc("NXP"))
    env.prove(len(raw) == 2 * cl, "ecc.raw_key_is_fixed_width")
    env.prove(env.And(env.bytes_eq(raw[:cl], xb), env.bytes_eq(raw[cl:], yb)), "ecc.raw_key_is_x_then_y")
    back = KEYS.PublicKeyEcc.parse(raw)
    env.prove(env.And(back.x == x, back.y == y) and back.curve == pub.curve, "ecc.raw_key_round_trip")
    auto = KEYS.PublicKey.parse(raw)
    env.prove(isinstance(auto, KEYS.PublicKeyEcc) and env.is_true(env.And(auto.x == x, auto.y == y)) and auto.curve == pub.curve,
              "ecc.auto_detecting_parse_same_key")
    env.prove(back.coordinate_size == cl and back.signature_size == 2 * cl, "ecc.sizes")


def h_rsapub(env, c):
    ENV[0] = env
    bits = c["bits"]
    nb = env.bytes("modulus", bits // 8)
    env.assume(nb[0] >= 0x80)
    n = env.from_bytes(nb, "big")
    e = 65537 if c["e"] == "f4" else env.int("e", 0x10001, 0xFFFFFFFF)
    pub = KEYS.PublicKeyRsa(FakeRsaPub(n, e, bits))
    raw = pub.export(enc("NXP"))
    elen = 3 if c["e"] == "f4" else None
    env.prove(env.bytes_eq(raw[: bits // 8], nb), "rsa.raw_key_starts_with_modulus_big_endian")
    env.prove(env.from_bytes(raw[bits // 8:], "big") == e, "rsa.raw_key_ends_with_exponent")
    env.prove(len(raw) in (bits // 8 + 3, bits // 8 + 4), "rsa.raw_key_length")
    nums = KEYS.PublicKeyRsa.recreate_public_numbers(raw)
    env.prove(env.And(nums.n == n, nums.e == e), "rsa.raw_key_round_trip")
    # the auto-detecting entry point arrives at the same key (ECC raw / DER lengths do not collide with RSA raw lengths)
    auto = KEYS.PublicKey.parse(raw)
    env.prove(isinstance(auto, KEYS.PublicKeyRsa) and env.is_true(env.And(auto.n == n, auto.e == e)), "rsa.auto_detecting_parse_same_key")
    # explicit field widths: modulus and exponent right-aligned in the requested widths
    wide = pub.export(enc("NXP"), exp_length=4, modulus_length=bits // 8 + 4)
    env.prove(len(wide) == bits // 8 + 8, "rsa.raw_key_explicit_widths_length")
    env.prove(env.And(env.from_bytes(wide[: bits // 8 + 4], "big") == n, env.from_bytes(wide[bits // 8 + 4:], "big") == e),
              "rsa.raw_key_explicit_widths_values")


def cases(tier):
    q = tier == "quick"
    cs = []
    for curve, cl in CLEN.items():
        lens = sorted({1, cl - 3, cl - 2, cl - 1, cl})
        pairs = [(a, b) for a in lens for b in lens]
        if q:
            pairs = [(cl, cl), (cl - 1, cl), (cl, cl - 1), (cl - 1, cl - 1), (cl - 2, cl), (cl - 2, cl - 1), (cl - 3, cl), (cl - 2, cl - 2),
                     (1, 1), (1, cl)]
        for rl, sl in pairs:
            cs.append({"id": f"ecdsa/{curve}/rlen={rl}/slen={sl}", "h": "ecdsa", "curve": curve, "rl": rl, "sl": sl})
            if (rl, sl) in ((cl, cl), (cl - 1, cl), (cl - 2, cl - 1), (1, 1)) or not q:
                cs.append({"id": f"ecsign/{curve}/rlen={rl}/slen={sl}", "h": "ecsign", "curve": curve, "rl": rl, "sl": sl})
        for lead in (None, 0, 4):
            cs.append({"id": f"eccpub/{curve}/lead={lead}", "h": "eccpub", "curve": curve, "lead": lead})
    for bits in (2048, 3072, 4096):
        for e in ("f4", "sym"):
            cs.append({"id": f"rsapub/{bits}/e={e}", "h": "rsapub", "bits": bits, "e": e, "weight": 4})
    for h in ("sha256", "sha384", "sha512"):
        for pss in (False, True):
            for pre in (False, True):
                cs.append({"id": f"rsasign/{h}/pss={int(pss)}/prehashed={int(pre)}", "h": "rsasign", "hash": h, "pss": pss,
                           "prehashed": pre, "bits": 2048})
    return cs


def run(env, case):
    globals()["h_" + case["h"]](env, case)

"""C15 - debug authentication: credentials round-trip, are signed over all preceding fields, carry the C03 RoT hash;
responses are signed over credential, beacon, (ECC) device UUID and challenge."""
PROPERTY = "C15"
NAME = "c15_dat"
LOGIC = "bv"
ENCODES = [
    "spsdk.dat.debug_credential.DebugCredentialCertificateEcc.export", "spsdk.dat.debug_credential.DebugCredentialCertificateEcc.parse",
    "spsdk.dat.debug_credential.DebugCredentialCertificateEcc._get_data_to_sign",
    "spsdk.dat.debug_credential.DebugCredentialCertificateEcc.calculate_hash",
    "spsdk.dat.debug_credential.DebugCredentialCertificateEcc.get_data_format",
    "spsdk.dat.debug_credential.DebugCredentialCertificateRsa.export", "spsdk.dat.debug_credential.DebugCredentialCertificateRsa.parse",
    "spsdk.dat.debug_credential.DebugCredentialCertificateRsa._get_data_to_sign",
    "spsdk.dat.debug_credential.DebugCredentialCertificate.sign", "spsdk.dat.debug_credential.RotMetaEcc.load_from_config",
    "spsdk.dat.debug_credential.DebugCredentialCertificate.create_from_yaml_config",
    "spsdk.dat.debug_credential.RotMetaEcc.export", "spsdk.dat.debug_credential.RotMetaEcc.parse",
    "spsdk.dat.debug_credential.RotMetaEcc.calculate_hash", "spsdk.dat.debug_credential.RotMetaFlags.export",
    "spsdk.dat.debug_credential.RotMetaFlags.parse", "spsdk.dat.debug_credential.RotMetaRSA.load_from_config",
    "spsdk.dat.debug_credential.RotMetaRSA.export", "spsdk.dat.debug_credential.RotMetaRSA.parse",
    "spsdk.dat.debug_credential.RotMetaRSA.calculate_hash", "spsdk.dat.dar_packet.DebugAuthenticateResponse.export",
    "spsdk.dat.dar_packet.DebugAuthenticateResponse._get_data_for_signature",
    "spsdk.dat.dar_packet.DebugAuthenticateResponseECC._get_common_data",
    "spsdk.dat.dac_packet.DebugAuthenticationChallenge.export", "spsdk.dat.dac_packet.DebugAuthenticationChallenge.parse",
    "spsdk.dat.dac_packet.DebugAuthenticationChallenge.validate_against_dc", "spsdk.utils.crypto.rkht.RKHTv21.from_keys",
]
BOUNDS = {
    "quick": "ECC protocol 2.0 (P-256) and 2.1 (P-384): 1..4 stub RoT keys with every used index, stub debug key, all of "
             "uuid (16 bytes), cc_socu, cc_vu, beacon, auth beacon (32-bit), device uuid, challenge (32 bytes), DAC fields "
             "symbolic; histories of two credentials from one configuration with all key files replaced in between; socc of lpc55s3x / mcxn9xx (concrete, database lookup); RSA protocol 1.0 (2048): 1..2 stub RoT keys",
    "thorough": "as quick plus RSA 1.0 with 3..4 keys and RSA 1.1 (4096)",
}
OUTSIDE = ("EdgeLock-enclave credentials (AHAB certificate objects inside); real signatures; reading of YAML and key files "
           "- key files are replaced by stub keys at extract_public_key (a name -> key table that the history cases change "
           "between two credentials)")
STUBS = ["get_hash -> UF", "extract_public_key / PublicKey.parse -> stub keys (parse inverse of export)", "signature provider -> UF SIGN"]
MUST_REACH = ["dc\\..*", "dar\\..*", "dac\\..*", "hist\\..*"]
OPTS = {"quick": {"case_timeout_s": 500}, "thorough": {"case_timeout_s": 2400}}
CS = {"2.0": ("secp256r1", 32, 256), "2.1": ("secp384r1", 48, 384)}
SOCC = {"lpc55s3x": 0x4, "mcxn9xx": 0x7, "lpc55s6x": 0x1}


def setup(symbolic):
    global DC, DAR, DAC, RK, EX, KEYS
    import spsdk.exceptions as EX
    KEYS = {}
    if symbolic:
        from symx import stubs, loader, keystubs
        import spsdk.crypto.hash as HM
        loader.patch_everywhere(HM.get_hash, stubs.get_hash)
    import spsdk.dat.debug_credential as DC
    import spsdk.dat.dar_packet as DAR
    import spsdk.dat.dac_packet as DAC
    import spsdk.utils.crypto.rkht as RK
    real_extract = DC.extract_public_key
    DC.extract_public_key = lambda file_path, password=None, search_paths=None: KEYS[file_path]
    if symbolic:
        cls = keystubs.classes()

        class PK:
            @staticmethod
            def parse(data):
                from symx.sbytes import items_of, from_bytes
                d = items_of(data)
                if len(d) in (64, 96, 132):
                    return cls["StubEcc"].recreate_from_data(data)
                bits = (len(d) - 4) * 8
                return cls["StubRsa"](from_bytes(d[:-4], "big"), from_bytes(d[-4:], "big"), bits)
        DC.PublicKey = PK


def H(env, data, bits):
    if env.symbolic:
        from symx import stubs
        return stubs.uf(f"H-sha{bits}", [list(data)], bits // 8)
    import hashlib
    return list(hashlib.new(f"sha{bits}", bytes(data)).digest())


def le32(env, b, o):
    return env.from_bytes(b[o: o + 4], "little")


class RecSP:
    """concrete-mode signature provider: records what it is asked to sign"""

    def __init__(self, n):
        self.signature_length = n
        self.calls = []

    def get_signature(self, data):
        self.calls.append(list(data))
        return bytes(self.signature_length - 1) + b"\x01"

    sign = get_signature

    def try_to_verify_public_key(self, key):
        return None


def _ecc_key(env, name, curve, n):
    if env.symbolic:
        from symx import keystubs
        return keystubs.classes()["StubEcc"](env.int(name + "x", 0, (1 << (8 * n)) - 1), env.int(name + "y", 0, (1 << (8 * n)) - 1), curve)
    from spsdk.crypto.keys import PublicKeyEcc
    from cryptography.hazmat.primitives.asymmetric import ec
    d = env.int(name + "x", 0, (1 << (8 * n)) - 1) % 1000003 + 11
    env.int(name + "y", 0, (1 << (8 * n)) - 1)
    return PublicKeyEcc(ec.derive_private_key(d, {"secp256r1": ec.SECP256R1(), "secp384r1": ec.SECP384R1()}[curve]).public_key())


def _sp(env, key, n):
    if env.symbolic:
        from symx import keystubs
        return keystubs.classes()["StubSP"](key.ident(), n)
    return RecSP(n)


def h_ecc(env, c):
    curve, n, hb = CS[c["ver"]]
    socc = SOCC[c["family"]]
    roots = [_ecc_key(env, f"r{i}", curve, n) for i in range(c["n"])]
    for i, k in enumerate(roots):
        KEYS[f"k{i}"] = k
    used = c["used"]
    rm = DC.RotMetaEcc.load_from_config({"rot_meta": [f"k{i}" for i in range(c["n"])], "rot_id": used})
    dck = _ecc_key(env, "d", curve, n)
    uuid = env.bytes("uuid", 16)
    socu, vu, beacon = env.int("cc_socu", 0, 0xFFFFFFFF), env.int("cc_vu", 0, 0xFFFFFFFF), env.int("cc_beacon", 0, 0xFFFFFFFF)
    sp = _sp(env, roots[used], 2 * n)
    dc = DC.DebugCredentialCertificateEcc(version=DC.ProtocolVersion(c["ver"]), socc=socc, uuid=uuid, rot_meta=rm, dck_pub=dck,
                                          cc_socu=socu, cc_vu=vu, cc_beacon=beacon, rot_pub=roots[used], signature_provider=sp)
    dc.sign()
    b = list(dc.export())
    siglen = 2 * n
    env.prove(len(sp.calls) == 1 and env.bytes_eq(sp.calls[0], b[:len(b) - siglen]), "dc.signature_covers_all_preceding_fields")
    # independent field offsets
    minor = int(c["ver"][2])
    env.prove(b[0:4] == [2, 0, minor, 0] and le32(env, b, 4) == socc, "dc.version_and_socc")
    env.prove(env.bytes_eq(b[8:24], uuid), "dc.uuid")
    env.prove(env.And(le32(env, b, 24) == socu, le32(env, b, 28) == vu, le32(env, b, 32) == beacon), "dc.constraints_and_beacon")
    env.prove(le32(env, b, 36) == (1 << 31) + (used << 8) + (c["n"] << 4), "dc.rot_meta_flags")
    o = 40
    pubs = [list(k.export()) for k in roots]
    refs = [H(env, p, hb) for p in pubs]
    if c["n"] > 1:
        for i in range(c["n"]):
            env.prove(env.bytes_eq(b[o: o + n], refs[i]), "dc.rot_table_entry_is_hash_of_fixed_width_x_y")
            o += n
    env.prove(env.bytes_eq(b[o: o + 2 * n], pubs[used]), "dc.rot_public_key_is_named_root")
    o += 2 * n
    env.prove(env.bytes_eq(b[o: o + 2 * n], list(dck.export())), "dc.debug_key")
    o += 2 * n
    env.prove(o + siglen == len(b), "dc.nothing_else_emitted")
    # RoT hash equals the image tools' value for the same keys (C03)
    ref = refs[0] if c["n"] == 1 else H(env, [x for r in refs for x in r], hb)
    env.prove(env.bytes_eq(dc.calculate_hash(), ref), "dc.rot_hash_equals_documented_construction")
    env.prove(env.bytes_eq(RK.RKHTv21.from_keys(roots).rkth(), ref), "dc.rot_hash_equals_image_tools")
    # parse(export) == same fields
    back = DC.DebugCredentialCertificateEcc.parse(bytes(b) if not env.symbolic else dc.export())
    env.prove(env.And(back.socc == socc, back.cc_socu == socu, back.cc_vu == vu, back.cc_beacon == beacon), "dc.parsed_words")
    env.prove(env.bytes_eq(back.uuid, uuid), "dc.parsed_uuid")
    env.prove(env.bytes_eq(back.rot_meta.export(), rm.export()), "dc.parsed_rot_meta")
    env.prove(env.bytes_eq(back.rot_pub.export(), pubs[used]) and True, "dc.parsed_rot_pub")
    env.prove(env.bytes_eq(back.dck_pub.export(), list(dck.export())), "dc.parsed_dck_pub")
    env.prove(env.bytes_eq(back.signature, b[len(b) - siglen:]), "dc.parsed_signature")
    env.prove_eq(back.export(), bytes(b) if not env.symbolic else dc.export(), "dc.export_parse_export_identity")
    env.prove(env.bytes_eq(back.calculate_hash(), ref), "dc.parsed_credential_same_rot_hash")
    # ---- authentication response -------------------------------------------------------------------------
    dev_uuid = env.bytes("device_uuid", 16)
    challenge = env.bytes("challenge", 32)
    dac = DAC.DebugAuthenticationChallenge(version=DC.ProtocolVersion(c["ver"]), socc=socc, uuid=dev_uuid,
                                           rotid_rkh_revocation=env.int("rkh_rev", 0, 0xFFFFFFFF), rotid_rkth_hash=env.bytes("rkth", hb // 8),
                                           cc_soc_pinned=env.int("pinned", 0, 0xFFFFFFFF), cc_soc_default=env.int("default", 0, 0xFFFFFFFF),
                                           cc_vu=env.int("dac_vu", 0, 0xFFFFFFFF), challenge=challenge)
    auth = env.int("auth_beacon", 0, 0xFFFFFFFF)
    dsp = _sp(env, dck, siglen)
    klass = DAR.DebugAuthenticateResponse._get_class(c["family"], DC.ProtocolVersion(c["ver"]))
    dar = klass(family=c["family"], debug_credential=dc, auth_beacon=auth, dac=dac, sign_provider=dsp)
    out = list(dar.export())
    exp_common = b + [auth % 256, auth // 256 % 256, auth // 65536 % 256, auth // 16777216 % 256] + list(dev_uuid)
    env.prove(env.bytes_eq(out[:len(out) - siglen], exp_common), "dar.embeds_credential_beacon_and_device_uuid")
    env.prove(len(dsp.calls) == 1, "dar.signed_once")
    # fixed-width concatenation => the signed bytes determine (credential, beacon, uuid, challenge) uniquely
    env.prove(env.bytes_eq(dsp.calls[0], exp_common + list(challenge)), "dar.signature_covers_credential_beacon_uuid_challenge")
    # ---- challenge packet round trip -------------------------------------------------------------------------
    raw = dac.export()
    d2 = DAC.DebugAuthenticationChallenge.parse(raw)
    env.prove_eq(d2.export(), raw, "dac.export_parse_export_identity")
    env.prove(env.bytes_eq(d2.challenge, challenge) and env.bytes_eq(d2.uuid, dev_uuid), "dac.parsed_challenge_and_uuid")


def _rsa_key(env, name, bits):
    if env.symbolic:
        from symx import keystubs
        return keystubs.classes()["StubRsa"](env.int(name, 1 << (bits - 1), (1 << bits) - 1), 65537, bits)
    from spsdk.crypto.keys import PublicKeyRsa
    from cryptography.hazmat.primitives.asymmetric import rsa
    return PublicKeyRsa(rsa.RSAPublicNumbers(65537, env.int(name, 1 << (bits - 1), (1 << bits) - 1) | 1).public_key())


def h_rsa(env, c):
    bits = 2048 if c["ver"] == "1.0" else 4096
    nb = bits // 8
    socc = SOCC[c["family"]]
    roots = [_rsa_key(env, f"n{i}", bits) for i in range(c["n"])]
    for i, k in enumerate(roots):
        KEYS[f"k{i}"] = k
    used = c["used"]
    rm = DC.RotMetaRSA.load_from_config({"rot_meta": [f"k{i}" for i in range(c["n"])]})
    dck = _rsa_key(env, "dck", bits)
    uuid = env.bytes("uuid", 16)
    socu, vu, beacon = env.int("cc_socu", 0, 0xFFFFFFFF), env.int("cc_vu", 0, 0xFFFFFFFF), env.int("cc_beacon", 0, 0xFFFFFFFF)
    sp = _sp(env, roots[used], nb)
    dc = DC.DebugCredentialCertificateRsa(version=DC.ProtocolVersion(c["ver"]), socc=socc, uuid=uuid, rot_meta=rm, dck_pub=dck,
                                          cc_socu=socu, cc_vu=vu, cc_beacon=beacon, rot_pub=roots[used], signature_provider=sp)
    dc.sign()
    b = list(dc.export())
    env.prove(len(sp.calls) == 1 and env.bytes_eq(sp.calls[0], b[:len(b) - nb]), "dc.signature_covers_all_preceding_fields")
    refs = [H(env, list(k.n.to_bytes(nb, "big")) + [1, 0, 1], 256) for k in roots]
    table = [x for r in refs for x in r] + [0] * (32 * (4 - len(refs)))
    # RotMetaRSA.parse recognises used slots by "hash != 0": assume SHA-256 of a key is never the all-zero string
    for r in refs:
        env.assume(env.Not(env.bytes_eq(r, [0] * 32)))
    env.prove(b[0:4] == [1, 0, int(c["ver"][2]), 0] and le32(env, b, 4) == socc, "dc.version_and_socc")
    env.prove(env.bytes_eq(b[8:24], uuid), "dc.uuid")
    env.prove(env.bytes_eq(b[24:152], table), "dc.rot_table_entry_is_hash_of_n_e")
    o = 152
    env.prove(env.bytes_eq(b[o: o + nb + 4], list(dck.n.to_bytes(nb, "big")) + [0, 1, 0, 1]), "dc.debug_key")
    o += nb + 4
    env.prove(env.And(le32(env, b, o) == socu, le32(env, b, o + 4) == vu, le32(env, b, o + 8) == beacon), "dc.constraints_and_beacon")
    o += 12
    env.prove(env.bytes_eq(b[o: o + nb + 4], list(roots[used].n.to_bytes(nb, "big")) + [0, 1, 0, 1]), "dc.rot_public_key_is_named_root")
    env.prove(o + nb + 4 + nb == len(b), "dc.nothing_else_emitted")
    ref = H(env, table, 256)
    env.prove(env.bytes_eq(dc.calculate_hash(), ref), "dc.rot_hash_equals_documented_construction")
    env.prove(env.bytes_eq(RK.RKHTv1.from_keys(roots).rkth(), ref), "dc.rot_hash_equals_image_tools")
    if env.symbolic:
        back = DC.DebugCredentialCertificateRsa.parse(dc.export())
        env.prove_eq(back.export(), dc.export(), "dc.export_parse_export_identity")
        env.prove(env.bytes_eq(back.calculate_hash(), ref), "dc.parsed_credential_same_rot_hash")
    else:
        back = DC.DebugCredentialCertificateRsa.parse(bytes(b))
        env.prove_eq(back.export(), bytes(b), "dc.export_parse_export_identity")
        env.prove(env.bytes_eq(back.calculate_hash(), ref), "dc.parsed_credential_same_rot_hash")
    # response: credential || beacon || signature, signed over credential || beacon || challenge
    challenge = env.bytes("challenge", 32)
    dac = DAC.DebugAuthenticationChallenge(version=DC.ProtocolVersion(c["ver"]), socc=socc, uuid=env.bytes("device_uuid", 16),
                                           rotid_rkh_revocation=0, rotid_rkth_hash=bytes(32), cc_soc_pinned=0, cc_soc_default=0,
                                           cc_vu=0, challenge=challenge)
    auth = env.int("auth_beacon", 0, 0xFFFFFFFF)
    dsp = _sp(env, dck, nb)
    klass = DAR.DebugAuthenticateResponse._get_class(c["family"], DC.ProtocolVersion(c["ver"]))
    out = list(klass(family=c["family"], debug_credential=dc, auth_beacon=auth, dac=dac, sign_provider=dsp).export())
    exp_common = b + [auth % 256, auth // 256 % 256, auth // 65536 % 256, auth // 16777216 % 256]
    env.prove(env.bytes_eq(out[:len(out) - nb], exp_common), "dar.embeds_credential_and_beacon")
    env.prove(len(dsp.calls) == 1 and env.bytes_eq(dsp.calls[0], exp_common + list(challenge)), "dar.signature_covers_credential_beacon_challenge")


def h_hist(env, c):
    """Two credentials made in one process from the same configuration text while the key files change in between
    (key rotation in place / a second project folder with the same file names): each credential is a function of
    the keys that were there when it was made."""
    curve, n, hb = CS[c["ver"]]
    fam, used, cnt = c["family"], c["used"], c["n"]
    socc = SOCC[fam]
    cfg = {"family": fam, "rot_meta": [f"hk{i}" for i in range(cnt)], "rot_id": used, "dck": "hd", "uuid": "a5" * 16,
           "cc_socu": 0x11, "cc_vu": 0x22, "cc_beacon": 0x33, "rotk": "hrotk"}
    exports = []
    for gen in (1, 2):
        roots = [_ecc_key(env, f"g{gen}r{i}", curve, n) for i in range(cnt)]
        dck = _ecc_key(env, f"g{gen}d", curve, n)
        for i, k in enumerate(roots):
            KEYS[f"hk{i}"] = k
        KEYS["hd"] = dck
        sp = _sp(env, roots[used], 2 * n)
        DC.get_signature_provider = lambda *a, **k: sp
        dc = DC.DebugCredentialCertificate.create_from_yaml_config(cfg)
        dc.sign()
        b = list(dc.export())
        exports.append((dc, b))
        tag = "hist.first" if gen == 1 else "hist.second"
        pubs = [list(k.export()) for k in roots]
        refs = [H(env, p, hb) for p in pubs]
        o = 40
        if cnt > 1:
            ok = []
            for i in range(cnt):
                ok.append(env.bytes_eq(b[o: o + n], refs[i]))
                o += n
            env.prove(env.And(*ok), tag + "_credential_table_is_hashes_of_the_keys_present_when_it_was_made")
        env.prove(env.bytes_eq(b[o: o + 2 * n], pubs[used]), tag + "_credential_names_the_root_present_when_it_was_made")
        o += 2 * n
        env.prove(env.bytes_eq(b[o: o + 2 * n], list(dck.export())), tag + "_credential_carries_the_debug_key_present_when_it_was_made")
        ref = refs[0] if cnt == 1 else H(env, [x for r in refs for x in r], hb)
        env.prove(env.bytes_eq(dc.calculate_hash(), ref), tag + "_credential_rot_hash_equals_image_tools_value")
        env.prove(len(sp.calls) == 1 and env.bytes_eq(sp.calls[0], b[:len(b) - 2 * n]), tag + "_credential_signed_over_its_own_bytes")
    env.prove(env.bytes_eq(exports[0][0].export(), exports[0][1]), "hist.first_credential_unchanged_by_the_second")


def cases(tier):
    q = tier == "quick"
    cs = []
    for ver, fam in (("2.0", "lpc55s3x"), ("2.1", "mcxn9xx")):
        for n, used in ((1, 0), (2, 1), (3, 0)) + (() if q else ((4, 3), (4, 0))):
            cs.append({"id": f"hist/{ver}/n={n}/used={used}", "h": "hist", "ver": ver, "family": fam, "n": n, "used": used, "weight": 2 * n})
    for ver, fam in (("2.0", "lpc55s3x"), ("2.1", "mcxn9xx")):
        for n in (1, 2, 3, 4):
            for used in range(n):
                if q and n == 3 and used == 1:
                    continue
                cs.append({"id": f"ecc/{ver}/n={n}/used={used}", "h": "ecc", "ver": ver, "family": fam, "n": n, "used": used, "weight": n})
    for n, used in ((1, 0), (2, 1)) + (() if q else ((3, 0), (4, 3))):
        cs.append({"id": f"rsa/1.0/n={n}/used={used}", "h": "rsa", "ver": "1.0", "family": "lpc55s6x", "n": n, "used": used, "weight": 6 * n})
    return cs


def run(env, case):
    globals()["h_" + case["h"]](env, case)

"""C13 - on-the-fly flash encryption (OTFAD, BEE): a model of the decryption hardware holding the same keys turns what
SPSDK encrypted back into the plaintext inside the configured ranges and leaves everything else untouched."""
PROPERTY = "C13"
NAME = "c13_flashenc"
LOGIC = "bv"
ENCODES = [
    "spsdk.utils.crypto.otfad.KeyBlob.__init__", "spsdk.utils.crypto.otfad.KeyBlob.encrypt_image",
    "spsdk.utils.crypto.otfad.KeyBlob._get_ctr_nonce", "spsdk.utils.crypto.otfad.KeyBlob.contains_addr",
    "spsdk.utils.crypto.otfad.KeyBlob.matches_range", "spsdk.utils.crypto.otfad.KeyBlob.plain_data",
    "spsdk.utils.crypto.otfad.KeyBlob.export", "spsdk.utils.crypto.otfad.KeyBlob.is_encrypted",
    "spsdk.utils.crypto.otfad.Otfad.encrypt_image", "spsdk.utils.crypto.otfad.Otfad.encrypt_key_blobs",
    "spsdk.image.bee.BeeFacRegion.validate", "spsdk.image.bee.BeeProtectRegionBlock.update",
    "spsdk.image.bee.BeeProtectRegionBlock.is_inside_region", "spsdk.image.bee.BeeProtectRegionBlock.encrypt_block",
    "spsdk.image.bee.BeeProtectRegionBlock.export", "spsdk.image.bee.BeeProtectRegionBlock.parse",
    "spsdk.image.bee.BeeRegionHeader.encrypt_block", "spsdk.image.bee.BeeNxp.export_image",
    "spsdk.utils.crypto.iee.IeeKeyBlob.__init__", "spsdk.utils.crypto.iee.IeeKeyBlob.plain_data",
    "spsdk.utils.crypto.iee.IeeKeyBlob.encrypt_image", "spsdk.utils.crypto.iee.IeeKeyBlob.encrypt_image_xts",
    "spsdk.utils.crypto.iee.IeeKeyBlob.encrypt_image_ctr", "spsdk.utils.crypto.iee.IeeKeyBlob.calculate_tweak",
    "spsdk.utils.crypto.iee.Iee.encrypt_image", "spsdk.utils.crypto.iee.Iee.encrypt_key_blobs",
    "spsdk.utils.crypto.iee.Iee.get_key_blobs", "spsdk.utils.misc.reverse_bytes_in_longs",
    "spsdk.crypto.symmetric.Counter.value", "spsdk.utils.misc.split_data",
]
BOUNDS = {
    "quick": "OTFAD: base address any 16-byte aligned value below 2^31, image lengths {16, 48, 1040} bytes of symbolic "
             "content, 1..2 key blobs with symbolic 1 KiB-aligned start/end (covering the image fully, partly or not at "
             "all), symbolic keys/counters, key flags symbolic 0..7, byte swap on/off; key blob export: all fields "
             "symbolic, scramble mask 32-bit and align 8-bit symbolic, 1..2 blobs; BEE: 1..2 FAC regions with symbolic "
             "1 KiB-aligned start/length in either order, block address symbolic 1 KiB-aligned, 32-byte block",
    "thorough": "as quick with image lengths up to 2080 and 3 blobs / FAC regions",
}
OUTSIDE = ("real AES / key wrap / XTS (stubbed: the claim is about addresses, counters, tweaks, ranges and layouts); images "
           "longer than the bounds; XTS keys whose two halves are equal (the crypto library refuses them); IEE CTR initial "
           "counters whose low word plus (address >> 4) exceeds 32 bits are decided separately (no-crash obligation); "
           "OtfadNxp/IeeNxp/BeeNxp YAML configuration plumbing and BinaryImage packaging")
STUBS = ["AES-CTR -> XOR with a native z3 uninterpreted function KS(key, counter block) (congruence by the solver)",
         "RFC 3394 key wrap -> ideal invertible cipher stub; random_bytes -> fresh symbolic bytes",
         "crcmod -> bit-exact BV model"]
MUST_REACH = ["otfad\\..*", "blob\\..*", "bee\\..*", "beeimg\\..*", "iee\\..*", "ieeblob\\..*"]
OPTS = {"quick": {"case_timeout_s": 1200, "max_paths": 4000, "query_timeout_ms": 180000}, "thorough": {"case_timeout_s": 2400, "max_paths": 40000}}
K = 0x400


def setup(symbolic):
    global OT, BEE, IEE, EX, S, SYM
    SYM = symbolic
    import spsdk.exceptions as EX
    if symbolic:
        from symx import stubs, loader
        stubs.install_symmetric()
        stubs.NATIVE_KS[0] = True
        stubs.XTS_BLOCKWISE[0] = True
        import spsdk.crypto.rng as RNG
        cnt = [0]

        def random_bytes(n):
            from symx.sbytes import var_bytes
            cnt[0] += 1
            return var_bytes(f"rng{cnt[0]}", n)
        loader.patch_everywhere(RNG.random_bytes, random_bytes)
    import spsdk.utils.crypto.otfad as OT
    import spsdk.image.bee as BEE
    import spsdk.utils.crypto.iee as IEE
    import spsdk.crypto.symmetric as S


def ks_block(env, key, cb):
    """AES(key, counter block) - the hardware's keystream generator"""
    if env.symbolic:
        from symx import stubs
        return stubs.ks_native("AES-KS", list(key), list(cb))
    from cryptography.hazmat.primitives.ciphers import Cipher, algorithms, modes
    e = Cipher(algorithms.AES(bytes(key)), modes.ECB()).encryptor()
    return list(e.update(bytes(cb)) + e.finalize())


def be32(env, v):
    if isinstance(v, int):
        return list(v.to_bytes(4, "big"))
    return list(v.to_bytes(4, "big"))


def swap8(block):
    return block[7::-1] + block[15:7:-1]


def revlongs(b):
    b = list(b)
    out = []
    for i in range(0, len(b), 4):
        out.extend(b[i: i + 4][::-1])
    return out


def blocks_equal(env, got, want):
    return env.And(*[g == w for g, w in zip(got, want)])


def prove_blocks(env, conds, label, group=4):
    """many independent per-block obligations: discharged in small groups (one solver query per group)"""
    if len(conds) <= group:
        env.prove(env.And(*conds), label)
        return
    for i in range(0, len(conds), group):
        env.prove(env.And(*conds[i: i + group]), label)


# ---------------------------------------------------------------------------------------------------------- OTFAD
def h_otfad(env, c):
    nblobs, L, swap = c["blobs"], c["L"], c["swap"]
    base = env.int("base_unit", 0, (1 << 21) - 1) * K + c["align"]
    img = env.bytes("image", L)
    otfad = OT.Otfad()
    blobs = []
    for i in range(nblobs):
        start = env.int(f"start{i}", 0, (1 << 21) - 1) * K
        nunits = env.int(f"units{i}", 1, 4)
        last = start + nunits * K - 1
        key, ctr = env.bytes(f"key{i}", 16), env.bytes(f"ctr{i}", 8)
        flags = env.int(f"flags{i}", 0, 7)
        blobs.append((start, last, key, ctr, flags))
    # pairwise non-overlapping contexts (the hardware's own precondition)
    for i in range(nblobs):
        for j in range(i + 1, nblobs):
            env.assume(env.Or(blobs[i][1] < blobs[j][0], blobs[j][1] < blobs[i][0]))
    regs = []
    for start, last, key, ctr, flags in blobs:
        # the configuration files give the end address as the aligned address after the range (template 0x08010000);
        # the class documentation uses the last byte (0x080013FF): both conventions are explored
        kb = OT.KeyBlob(start_addr=start, end_addr=last if c["end"] == "last" else last + 1, key=key, counter_iv=ctr,
                        key_flags=flags, zero_fill=bytes(4), crc=bytes(4))
        otfad.add_key_blob(kb)
        p = list(kb.plain_data())
        regs.append((env.from_bytes(p[24:28], "little"), env.from_bytes(p[28:32], "little"), p[0:16], p[16:24]))
    enc = list(otfad.encrypt_image(img, base, swap))
    env.prove(env.Or(len(enc) == L, len(enc) == (L + 15) // 16 * 16), "otfad.length_kept_up_to_block_padding")
    # ---- hardware model (reference manual): per 16-byte block at absolute address a; the context registers are what
    # ---- the key blob carries: start word, end word (bits 31:10 address, 2:0 = RO, ADE, VLD), key, counter
    n16 = (len(enc) + 15) // 16 * 16
    ct_all = enc + [0] * (n16 - len(enc))
    pad = list(img) + [0] * (n16 - L)
    conds = []
    for off in range(0, n16, 16):
        a = base + off
        ct = ct_all[off: off + 16]
        pt = ct
        for rs, rw, key, ctr in regs:
            hit = env.And(rs <= a, a // K <= rw // K, rw % 4 == 3)      # inside the context, VLD and ADE set
            nonce = list(ctr) + [ctr[j] ^ ctr[4 + j] for j in range(4)] + be32(env, a)
            ks = ks_block(env, key, nonce)
            x = swap8(ct) if swap else ct
            d = [p_ ^ k_ for p_, k_ in zip(x, ks)]
            d = swap8(d) if swap else d
            pt = [env.If(hit, dv, pv) for dv, pv in zip(d, pt)]
        conds.append(blocks_equal(env, pt, pad[off: off + 16]))
    prove_blocks(env, conds, "otfad.hardware_decrypts_inside_contexts_and_leaves_the_rest")
    # ---- piecewise = at once: the second half encrypted on its own at its own address
    if L >= 32:
        cut = (L // 32) * 16
        part = list(otfad.encrypt_image(bytes(img[cut:]) if not env.symbolic else img[cut:], base + cut, swap))
        if len(part) == len(enc) - cut:
            prove_blocks(env, [env.bytes_eq(part[o: o + 16], enc[cut + o: cut + o + 16]) for o in range(0, len(part), 16)],
                         "otfad.piece_at_its_address_equals_slice_of_whole")
        else:
            env.prove(False, "otfad.piece_at_its_address_equals_slice_of_whole")


def h_blob(env, c):
    """key blob plain data layout and wrapped export (with KEK scrambling)"""
    nblobs = c["blobs"]
    kek = env.bytes("kek", 16)
    mask = env.int("scramble_mask", 0, 0xFFFFFFFF) if c["scramble"] else None
    align = env.int("scramble_align", 0, 0xFF) if c["scramble"] else None
    otfad = OT.Otfad()
    fields = []
    for i in range(nblobs):
        start = env.int(f"start{i}", 0, (1 << 22) - 1) * K
        last = start + env.int(f"units{i}", 1, 1 << 10) * K - 1
        env.assume(last + (0 if c["end"] == "last" else 1) <= 0xFFFFFFFF)
        key, ctr = env.bytes(f"key{i}", 16), env.bytes(f"ctr{i}", 8)
        flags = env.int(f"flags{i}", 0, 7)
        kb = OT.KeyBlob(start_addr=start, end_addr=last if c["end"] == "last" else last + 1, key=key, counter_iv=ctr,
                        key_flags=flags, zero_fill=bytes(4))
        otfad.add_key_blob(kb)
        fields.append((start, last, key, ctr, flags, kb))
    plains = []
    for start, last, key, ctr, flags, kb in fields:
        p = list(kb.plain_data())
        plains.append(p)
        env.prove(len(p) == 64, "blob.plain_size")
        env.prove(env.And(env.bytes_eq(p[0:16], key), env.bytes_eq(p[16:24], ctr)), "blob.key_and_counter")
        env.prove(env.from_bytes(p[24:28], "little") == start, "blob.start_address")
        w = env.from_bytes(p[28:32], "little")
        # reference manual: end address bits [31:10], bits [9:3] read as ones, bits [2:0] = RO, ADE, VLD
        env.prove(env.And(w // 1024 == last // 1024, (w // 8) % 128 == 127, w % 8 == flags), "blob.end_address_with_flags")
        if env.symbolic:
            from symx.shims import crc_generic
            ref = crc_generic(p[0:32], 32, 0x04C11DB7, 0xFFFFFFFF, False, 0)
        else:
            from harness.mbi_common import ref_crc_mpeg2
            ref = ref_crc_mpeg2(env, p[0:32])
        env.prove(env.from_bytes(p[36:40], "little") == ref, "blob.crc32_mpeg2_over_first_32_bytes")
        env.prove(env.And(*[x == 0 for x in p[32:36] + p[40:64]]), "blob.zero_fill_and_padding")
    out = list(otfad.encrypt_key_blobs(kek, key_scramble_mask=mask, key_scramble_align=align))
    env.prove(len(out) == 256, "blob.table_is_256_bytes")
    for i, (start, last, key, ctr, flags, kb) in enumerate(fields):
        # the hardware unwraps blob i with the KEK whose 32-bit word (align >> 2i) & 3 is XOR-ed with the mask
        k = list(kek)
        if c["scramble"]:
            ix = (align // (1 << (2 * i))) % 4
            mb = [(mask // (1 << (8 * j))) % 256 for j in range(4)]
            k = [env.If(ix == idx // 4, k[idx] ^ mb[idx % 4], k[idx]) for idx in range(16)]
        blob = out[64 * i: 64 * i + 64]
        if env.symbolic:
            from symx import stubs
            body = stubs.dec("AES-WRAP", k, [], blob[8:48])
            iv = stubs.uf("AES-WRAP-IV", [k, body], 8)
            env.prove(env.bytes_eq(iv, blob[0:8]), "blob.unwraps_with_hardware_kek")
        else:
            from cryptography.hazmat.primitives import keywrap
            try:
                body = list(keywrap.aes_key_unwrap(bytes(k), bytes(blob[0:48])))
                env.prove(True, "blob.unwraps_with_hardware_kek")
            except Exception:
                env.prove(False, "blob.unwraps_with_hardware_kek")
                continue
        env.prove(env.bytes_eq(body, plains[i][:40]), "blob.unwrapped_content_is_configured_context")
        env.prove(env.And(*[x == 0 for x in blob[48:64]]), "blob.padding_after_wrap")
    env.prove(env.And(*[x == 0 for x in out[64 * nblobs:]]), "blob.unused_table_entries_zero")


# ---------------------------------------------------------------------------------------------------------- BEE
def mk_prdb(env, tag, nfac):
    ctr12 = env.bytes(f"counter{tag}", 12)
    if env.symbolic:
        from symx.sbytes import SymBytes
        counter = SymBytes.make(list(ctr12) + [0, 0, 0, 0])
    else:
        counter = bytes(ctr12) + bytes(4)
    prdb = BEE.BeeProtectRegionBlock(counter=counter)
    facs = []
    for i in range(nfac):
        start = env.int(f"fac_start{tag}{i}", 0, (1 << 21) - 1) * K
        ln = env.int(f"fac_units{tag}{i}", 1, 8) * K
        facs.append((start, start + ln))
    return prdb, ctr12, facs


def h_bee(env, c):
    nfac = c["facs"]
    key = env.bytes("key", 16)
    prdb, ctr12, facs = mk_prdb(env, "", nfac)
    for i in range(nfac):
        for j in range(i + 1, nfac):
            env.assume(env.Or(facs[i][1] <= facs[j][0], facs[j][1] <= facs[i][0]))
    for start, end in facs:
        prdb.add_fac(BEE.BeeFacRegion(start, end - start, 0))
    addr = env.int("block_unit", 0, (1 << 21) - 1) * K
    data = env.bytes("data", 32)
    enc = list(prdb.encrypt_block(key, addr, data))
    env.prove(len(enc) == 32, "bee.length_kept")
    # hardware model: a block inside ANY FAC region is CTR-decrypted with counter[0:12] || (address >> 4)
    inside = env.Or(*[env.And(s <= addr, addr < e) for s, e in facs])
    conds = []
    for off in (0, 16):
        a = addr + off
        ks = ks_block(env, key, list(ctr12) + be32(env, a // 16))
        pt = [env.If(inside, x ^ k, x) for x, k in zip(enc[off: off + 16], ks)]
        conds.append(blocks_equal(env, pt, data[off: off + 16]))
    env.prove(env.And(*conds), "bee.hardware_decrypts_inside_fac_regions_and_leaves_the_rest")
    # the exported region block lists the regions and spans them
    raw = list(prdb.export())
    env.prove(len(raw) == 0x100, "bee.header_size")
    lo = env.from_bytes(raw[16:20], "little")
    hi = env.from_bytes(raw[20:24], "little")
    for s, e in facs:
        env.prove(env.And(lo <= s, e <= hi), "bee.header_span_covers_every_fac_region")
    env.prove(env.bytes_eq(raw[32:48][::-1], list(ctr12) + [0] * 4), "bee.header_counter_stored_reversed")
    back = BEE.BeeProtectRegionBlock.parse(prdb.export())
    env.prove_eq(back.export(), prdb.export(), "bee.header_export_parse_export_identity")


def h_beeimg(env, c):
    """BeeNxp.export_image over one or two engines"""
    L, neng = c["L"], c["engines"]
    base = env.int("base_unit", 0, (1 << 21) - 1) * K + c["align"]
    img = env.bytes("image", L)
    engines = []
    headers = []
    for e in range(neng):
        key = env.bytes(f"swkey{e}", 16)
        prdb, ctr12, facs = mk_prdb(env, f"_e{e}_", c["facs"])
        engines.append((key, ctr12, facs))
    allf = [f for _, _, fs in engines for f in fs]
    for i in range(len(allf)):
        for j in range(i + 1, len(allf)):
            env.assume(env.Or(allf[i][1] <= allf[j][0], allf[j][1] <= allf[i][0]))
    for e, (key, ctr12, facs) in enumerate(engines):
        if env.symbolic:
            from symx.sbytes import SymBytes
            counter = SymBytes.make(list(ctr12) + [0, 0, 0, 0])
        else:
            counter = bytes(ctr12) + bytes(4)
        prdb = BEE.BeeProtectRegionBlock(counter=counter)
        for s, e_ in facs:
            prdb.add_fac(BEE.BeeFacRegion(s, e_ - s, 0))
        headers.append(BEE.BeeRegionHeader(prdb, key, BEE.BeeKIB(bytes(16), bytes(16))))
    try:
        enc = list(BEE.BeeNxp(headers, img, base).export_image())
    except EX.SPSDKError:
        env.prove(False, "beeimg.valid_configuration_not_refused")
        return
    env.prove(True, "beeimg.valid_configuration_not_refused")
    n16 = (len(enc) + 15) // 16 * 16
    env.prove(env.Or(len(enc) == L, len(enc) == n16), "beeimg.length_kept_up_to_block_padding")
    ct_all = enc + [0] * (n16 - len(enc))
    conds = []
    for off in range(0, n16, 16):
        a = base + off
        ct = ct_all[off: off + 16]
        pt = ct
        for key, ctr12, facs in engines:
            inside = env.Or(*[env.And(s <= a, a < e_) for s, e_ in facs])
            ks = ks_block(env, key, list(ctr12) + be32(env, a // 16))
            pt = [env.If(inside, x ^ k, p_) for x, k, p_ in zip(ct, ks, pt)]
        live = min(16, L - off)
        # bytes of a final partial block: only the image's own bytes are compared (the filler is random by design)
        conds.append(env.And(*[pt[j] == img[off + j] for j in range(live)]))
    prove_blocks(env, conds, "beeimg.hardware_decrypts_inside_fac_regions_and_leaves_the_rest")


# ---------------------------------------------------------------------------------------------------------- IEE
U = 0x1000
MODES = {"xts": "AesXTS", "ctr_addr": "AesCTRWAddress", "ctr_noaddr": "AesCTRWOAddress", "ctr_ks": "AesCTRkeystream",
         "bypass": "Bypass"}


def mk_iee_blob(env, c, i):
    attr = IEE.IeeKeyBlobAttribute(IEE.IeeKeyBlobLockAttributes.UNLOCK,
                                   IEE.IeeKeyBlobKeyAttributes.from_label(c["keysize"]),
                                   IEE.IeeKeyBlobModeAttributes.from_label(MODES[c["mode"]]))
    start = env.int(f"start{i}", 0, (1 << 19) - 1) * U
    end = start + env.int(f"units{i}", 1, 4) * U         # configuration convention: the aligned address after the range
    key1 = env.bytes(f"key1_{i}", attr.key1_size)
    key2 = env.bytes(f"key2_{i}", attr.key2_size)
    if not attr.ctr_mode:
        env.assume(env.Not(env.bytes_eq(key1, key2)))     # the crypto library refuses XTS keys with equal halves
    return attr, start, end, key1, key2


def h_iee(env, c):
    L, nblobs, mode = c["L"], c["blobs"], c["mode"]
    base = env.int("base4k", 0, (1 << 19) - 1) * U
    img = env.bytes("image", L)
    iee = IEE.Iee()
    blobs = []
    for i in range(nblobs):
        blobs.append(mk_iee_blob(env, c, i))
    for i in range(nblobs):
        for j in range(i + 1, nblobs):
            env.assume(env.Or(blobs[i][2] <= blobs[j][1], blobs[j][2] <= blobs[i][1]))
    n16 = (L + 15) // 16 * 16
    for attr, start, end, key1, key2 in blobs:
        iee.add_key_blob(IEE.IeeKeyBlob(attr, start, end, key1, key2))
        if attr.ctr_mode and not c.get("overflow"):
            # the 32-bit counter word (initial counter + address >> 4) stays inside 32 bits; decided apart in the
            # '/overflow' cases, which claim no more than 'no crash'
            env.assume(env.from_bytes(revlongs(key2)[12:16], "big") + (base + n16) // 16 <= 0xFFFFFFFF)
    enc = list(iee.encrypt_image(img, base))
    env.prove(env.Or(len(enc) == L, len(enc) == n16), "iee.length_kept_up_to_block_padding")
    if mode in ("ctr_noaddr", "ctr_ks") or c.get("overflow"):
        env.prove(True, "iee.other_ctr_variants_and_counter_overflow_do_not_crash")
        return
    ct_all = enc + [0] * (n16 - len(enc))
    pad = list(img) + [0] * (n16 - L)
    conds = []
    if mode == "xts" and not env.symbolic:
        # concretely the model decrypts whole 4 KiB data units with the library's XTS
        from cryptography.hazmat.primitives.ciphers import Cipher, algorithms, modes
        for off in range(0, n16, U):
            a = base + off
            unit = bytes(ct_all[off: off + U])
            pt = unit
            for attr, start, end, key1, key2 in blobs:
                if start <= a < end:
                    tw = (a >> 12).to_bytes(16, "little")
                    d = Cipher(algorithms.AES(bytes(revlongs(key1) + revlongs(key2))), modes.XTS(tw)).decryptor()
                    pt = d.update(unit) + d.finalize()
            for o in range(0, len(unit), 16):
                conds.append(list(pt[o: o + 16]) == pad[off + o: off + o + 16])
    else:
        for off in range(0, n16, 16):
            a = base + off
            ct = ct_all[off: off + 16]
            pt = ct
            for attr, start, end, key1, key2 in blobs:
                inside = env.And(start <= a, a < end)
                if mode == "bypass":
                    d = ct
                elif mode == "xts":
                    from symx import stubs
                    sector = a // U
                    d = stubs.xts_native("dec", revlongs(key1) + revlongs(key2), list(sector.to_bytes(16, "little")),
                                         (off % U) // 16, ct)
                else:
                    nonce = revlongs(key2)
                    low = env.from_bytes(nonce[12:16], "big") + a // 16
                    ks = ks_block(env, revlongs(key1), nonce[0:12] + be32(env, low))
                    d = [x ^ k for x, k in zip(ct, ks)]
                pt = [env.If(inside, dv, pv) for dv, pv in zip(d, pt)]
            conds.append(blocks_equal(env, pt, pad[off: off + 16]))
    prove_blocks(env, conds, "iee.hardware_decrypts_inside_regions_and_leaves_the_rest")
    if L >= 32 + U and mode != "bypass":
        part = list(iee.encrypt_image(img[U:], base + U))
        if len(part) == len(enc) - U:
            prove_blocks(env, [env.bytes_eq(part[o: o + 16], enc[U + o: U + o + 16]) for o in range(0, len(part), 16)],
                         "iee.piece_at_its_address_equals_slice_of_whole")
        else:
            env.prove(False, "iee.piece_at_its_address_equals_slice_of_whole")


def h_ieeblob(env, c):
    nblobs = c["blobs"]
    iee = IEE.Iee()
    blobs = []
    for i in range(nblobs):
        b = mk_iee_blob(env, c, i)
        po = env.int(f"page_offset{i}", 0, 0xFFFFFFFF)
        blobs.append(b + (po,))
        iee.add_key_blob(IEE.IeeKeyBlob(b[0], b[1], b[2], b[3], b[4], page_offset=po))
    plain = list(iee.get_key_blobs())
    env.prove(len(plain) == 384, "ieeblob.table_size")
    for i, (attr, start, end, key1, key2, po) in enumerate(blobs):
        p = plain[96 * i: 96 * i + 96]
        u = lambda o: env.from_bytes(p[o: o + 4], "little")
        env.prove(env.And(u(0) == 0x49454542, u(4) == 0x56010000), "ieeblob.header_and_version")
        env.prove(env.And(p[8] == 0x59, p[9] == attr.key_attribute.tag, p[10] == attr.aes_mode.tag, p[11] == 0), "ieeblob.attributes")
        env.prove(u(12) == po, "ieeblob.page_offset")
        k1 = list(key1) + [0] * (32 - len(key1))
        k2 = list(key2) + [0] * (32 - len(key2))
        env.prove(env.And(env.bytes_eq(p[16:48], k1), env.bytes_eq(p[48:80], k2)), "ieeblob.keys_zero_padded_to_32")
        env.prove(env.And(u(80) == start, u(84) == end, u(88) == 0), "ieeblob.address_range")
        if env.symbolic:
            from symx.shims import crc_generic
            ref = crc_generic(p[0:92], 32, 0x04C11DB7, 0xFFFFFFFF, False, 0)
        else:
            from harness.mbi_common import ref_crc_mpeg2
            ref = ref_crc_mpeg2(env, p[0:92])
        env.prove(u(92) == ref, "ieeblob.crc32_mpeg2_over_preceding_92_bytes")
    env.prove(env.And(*[x == 0 for x in plain[96 * nblobs:]]), "ieeblob.unused_entries_zero")
    k1, k2 = env.bytes("ibkek1", 32), env.bytes("ibkek2", 32)
    env.assume(env.Not(env.bytes_eq(k1, k2)))
    kaddr = env.int("keyblob_address", 0, 0xFFFFFFFF)
    out = list(iee.encrypt_key_blobs(k1, k2, kaddr))
    env.prove(len(out) == 384, "ieeblob.encrypted_table_size")
    tw = (kaddr // U).to_bytes(16, "little")
    key = revlongs(k1) + revlongs(k2)
    if env.symbolic:
        from symx import stubs
        back = []
        for j in range(24):
            back.extend(stubs.xts_native("dec", key, list(tw), j, out[16 * j: 16 * j + 16]))
    else:
        from cryptography.hazmat.primitives.ciphers import Cipher, algorithms, modes
        d = Cipher(algorithms.AES(bytes(key)), modes.XTS(bytes(tw))).decryptor()
        back = list(d.update(bytes(out)) + d.finalize())
    env.prove(env.bytes_eq(back, plain), "ieeblob.hardware_unwraps_to_plain_table")


def cases(tier):
    q = tier == "quick"
    cs = []
    # the 16-byte alignment of the base address inside its 1 KiB unit is a case parameter (it fixes the shape of the
    # walk over the data units); the unit number itself is symbolic
    aligns = (0, 16, 1008) if q else tuple(range(0, 1024, 16))
    for L in ((1, 16, 48, 1025, 1040) if q else (1, 16, 17, 48, 1024, 1025, 1040, 2080)):
        for nb in ((1, 2) if q else (1, 2, 3)):
            for swap in (False, True):
                for end in ("last", "after"):
                    for al in aligns:
                        if q and L >= 1025 and (nb == 2 and swap):
                            continue
                        if q and end == "after" and (swap or L not in (1, 1025, 1040)):
                            continue
                        if q and al == 16 and (swap or L < 1025):
                            continue
                        if not q and al not in (0, 16, 1008) and (L not in (17, 1040) or swap or end == "after" or nb == 3):
                            continue
                        cs.append({"id": f"otfad/L={L}/blobs={nb}/swap={int(swap)}/end={end}/align={al}", "h": "otfad", "L": L,
                                   "blobs": nb, "swap": swap, "end": end, "align": al, "weight": 1 + L // 16 * nb})
    for nb in ((1, 2) if q else (1, 2, 4)):
        for scr in (False, True):
            for end in ("last", "after"):
                cs.append({"id": f"blob/blobs={nb}/scramble={int(scr)}/end={end}", "h": "blob", "blobs": nb, "scramble": scr,
                           "end": end})
    for nf in ((1, 2) if q else (1, 2, 3)):
        cs.append({"id": f"bee/facs={nf}", "h": "bee", "facs": nf})
    for L in ((32, 1040) if q else (17, 32, 1040, 2080)):
        for ne, nf in ((1, 1), (1, 2), (2, 1)):
            for al in aligns:
                if not q and al not in (0, 16, 1008) and (L != 1040 or (ne, nf) != (1, 1)):
                    continue
                cs.append({"id": f"beeimg/L={L}/engines={ne}/facs={nf}/align={al}", "h": "beeimg", "L": L, "engines": ne,
                           "facs": nf, "align": al, "weight": 1 + L // 16 * ne})
    for mode in MODES:
        for ks in ("CTR128XTS256", "CTR256XTS512"):
            for L in ((1, 16, 48, U + 1, U + 32) if q else (1, 16, 17, 48, U, U + 1, U + 32, 2 * U + 16)):
                for nb in (1, 2):
                    # a 4 KiB data unit is 256 cipher blocks: the quick tier crosses a unit boundary in XTS mode with one
                    # key size only; the CTR walk over a boundary is in the thorough tier
                    if q and L > U + 1 and (mode != "xts" or ks == "CTR256XTS512" or nb == 2):
                        continue
                    if q and L == U + 1 and (mode not in ("xts", "bypass") or ks == "CTR256XTS512" or (mode == "xts" and nb == 2)):
                        continue
                    if q and L == 48 and mode == "xts":
                        continue
                    if mode in ("ctr_noaddr", "ctr_ks", "bypass") and ((nb == 2 and L != U + 1) or L > U + 32):
                        continue
                    cs.append({"id": f"iee/{mode}/{ks}/L={L}/blobs={nb}", "h": "iee", "mode": mode, "keysize": ks, "L": L,
                               "blobs": nb, "weight": 1 + L // 16 * nb})
                    if mode.startswith("ctr") and L == 16 and nb == 1:
                        cs.append(dict(cs[-1], id=cs[-1]["id"] + "/overflow", overflow=True, L=32))
    for mode in ("xts", "ctr_addr"):
        for ks in ("CTR128XTS256", "CTR256XTS512"):
            for nb in ((1, 2) if q else (1, 2, 4)):
                cs.append({"id": f"ieeblob/{mode}/{ks}/blobs={nb}", "h": "ieeblob", "mode": mode, "keysize": ks, "blobs": nb})
    return cs


def run(env, case):
    globals()["h_" + case["h"]](env, case)

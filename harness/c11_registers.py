"""C11 - registers and bit-fields behave as independent bit-vectors (differential against a bit-array model)."""
import itertools

PROPERTY = "C11"
NAME = "c11_registers"
LOGIC = "bv"
ENCODES = [
    "spsdk.utils.registers.RegsBitField.get_value", "spsdk.utils.registers.RegsBitField.set_value",
    "spsdk.utils.registers.RegsBitField.set_enum_value", "spsdk.utils.registers.RegsBitField.get_enum_value",
    "spsdk.utils.registers.RegsBitField.get_enum_constant", "spsdk.utils.registers.Register.set_value",
    "spsdk.utils.registers.Register.get_value", "spsdk.utils.registers.Register.get_bytes_value",
    "spsdk.utils.registers.Register.reset_value", "spsdk.utils.registers.Register.get_reset_value",
    "spsdk.utils.registers.Register.get_alt_width", "spsdk.utils.registers.Register._add_group_reg",
    "spsdk.utils.registers.ShiftRightConfigProcessor.pre_process",
    "spsdk.utils.registers.ShiftRightConfigProcessor.post_process",
    "spsdk.utils.registers._RegistersBase.find_reg", "spsdk.utils.registers._RegistersBase.get_reg",
    "spsdk.utils.registers._RegistersBase.get_registers", "spsdk.utils.registers._RegistersBase.get_reg_names",
    "spsdk.utils.registers._RegistersBase.add_register", "spsdk.utils.registers._RegistersBase.reset_values",
    "spsdk.utils.registers._RegistersBase.image_info", "spsdk.utils.registers._RegistersBase.export",
    "spsdk.utils.registers._RegistersBase.parse", "spsdk.utils.registers._RegistersBase._load_yml_config",
    "spsdk.utils.registers._RegistersBase.get_config", "spsdk.utils.misc.value_to_bytes",
    "spsdk.utils.misc.get_bytes_cnt_of_int", "spsdk.utils.images.BinaryImage.export",
]
BOUNDS = {
    "quick": "bit-field write: register widths 8/16/32/64, target field at a sample of (offset,width) incl. all "
             "boundary positions, with neighbours, written value any integer in [-2, 2^(w+count+1)], SHIFT_RIGHT "
             "count 0/2, initial register value fully symbolic; whole-register write: widths 8..64 x reverse x raw, "
             "value any integer in [-2, 2^(W+1)]; histories: every sequence of 2 operations from 10 kinds on a 32-bit "
             "register with 3 fields (enum, shift processor), reverse on/off, all operands symbolic; group registers of "
             "2..4 x 8/32-bit sub-registers in plain / reversed-sub-order / reversed-bytes / alt-width layouts; register "
             "files of 3 registers (one hidden, one group): export->parse, get_config->load_yml_config, read-only "
             "queries",
    "thorough": "as quick with every (offset,width) of 8/16/32-bit registers and a 64-bit sample, widths up to 512 "
                "for whole-register writes, all sequences of 3 operations",
}
OUTSIDE = ("layouts with alt-widths AND reversed sub-register order together (no database layout has both); bit-fields "
           "on byte-reversed registers and SHIFT_RIGHT fields with a non-zero reset value (no database layout has either; "
           "the implementation's raw/cooked convention for them is not self-consistent - noted in DESIGN.md); string "
           "operands other than enum names and rendered hex numbers; hidden registers in parse (excluded by design)")
STUBS = ["get_bytes_cnt_of_int -> verified loop-free summary (equivalence proved in this run: case summary_equiv/*)",
         "Register.get_hex_value / RegsBitField.get_hex_value -> HexNum(str) carrying the integer and its rendering kind "
         "(0x-prefixed / bare digits of a config_as_hexstring register); int(x,16) returns the integer (CPython formatting and "
         "parsing trusted to be mutually inverse); value_to_int of a bare rendering -> loop-free summary of the real grammar "
         "(decimal when all digits are 0..9, binary behind 0B, otherwise an error), equivalence proved in this run "
         "(hexsummary/*: real value_to_int on symbolic characters, 1..4 / 1..6 digits)"]
MUST_REACH = ["summary\\..*", "hexsummary\\..*", "bf\\..*", "reg\\..*", "hist\\..*", "grp\\..*", "file\\..*"]
OPTS = {"quick": {"case_timeout_s": 300}, "thorough": {"case_timeout_s": 1800, "max_paths": 100000}}
CONCRETE_TIMEOUT_S = 20

OPS = ["regw_raw", "regw", "bf0", "bf1", "bf2", "enum_name", "enum_int", "reset", "export_parse", "config_load"]


def setup(symbolic):
    global R, M, EX, SYM
    import spsdk.utils.registers as R
    import spsdk.utils.misc as M
    import spsdk.exceptions as EX
    SYM = symbolic
    if symbolic:
        from symx import loader, summaries
        global REAL_CNT, SUMMARY
        REAL_CNT = M.get_bytes_cnt_of_int
        SUMMARY = summaries.bytes_cnt_summary(REAL_CNT, 66)
        loader.patch_everywhere(REAL_CNT, SUMMARY)
        from symx import hexnum
        from symx.hexnum import HexNum
        from symx.sstr import ReProxy
        M.re = ReProxy(M.re)
        hexnum.install_value_to_int()
        R.Register.get_hex_value = lambda self, raw=False: (lambda v: HexNum(
            v, digits=(self.get_alt_width(v) // 4) if self.config_as_hexstring else None))(self.get_value(raw=raw))

        class RawStr(str):
            """the text 'RAW:<number>' of a symbolic number: prefix test and removal are the only string operations"""
            def __new__(cls, v):
                s = str.__new__(cls, "RAW:0x<sym>")
                s.sym = v
                return s

            def __getitem__(self, i):
                if isinstance(i, slice) and (i.start, i.stop, i.step) == (4, None, None):
                    return HexNum(self.sym)
                raise TypeError("unsupported string operation on a symbolic RAW: text")
        global RAWSTR
        RAWSTR = RawStr
        R.RegsBitField.get_hex_value = lambda self: HexNum(self.get_value())


def _bf_layouts(W, full):
    out = []
    if full:
        for w in range(1, W + 1):
            for off in range(0, W - w + 1):
                out.append((off, w))
        return out
    ws = sorted({1, 2, 3, 7, 8, 9, W // 2, W - 1, W})
    for w in ws:
        if w > W or w < 1:
            continue
        offs = sorted({0, 1, 7, 8, (W - w) // 2, W - w - 1, W - w})
        for off in offs:
            if 0 <= off <= W - w:
                out.append((off, w))
    return out


def cases(tier):
    q = tier == "quick"
    cs = []
    for mb in (1, 2, 4, 8, 16, 48, 66):
        for al in (True, False):
            cs.append({"id": f"summary_equiv/max={mb}/align={al}", "h": "summary", "max": mb, "align": al, "weight": 4})
    for W in (8, 16, 32, 64):
        full = (not q) and W <= 32
        for off, w in _bf_layouts(W, full):
            for cnt in (0, 2):
                if cnt and (q and w not in (1, 8, W)):
                    continue
                cs.append({"id": f"bf/W={W}/off={off}/w={w}/shr={cnt}", "h": "bf", "W": W, "off": off, "w": w, "cnt": cnt})
                if cnt or w in (1, W):
                    # writes that bypass the pre-processing: the value is the field content itself
                    for mode in ("noprep", "rawstr"):
                        cs.append({"id": f"bf/W={W}/off={off}/w={w}/shr={cnt}/{mode}", "h": "bf", "W": W, "off": off,
                                   "w": w, "cnt": cnt, "mode": mode})
    for W in (8, 16, 24, 32, 64) + (() if q else (128, 256, 384, 512)):
        for rev in (False, True):
            for raw in (False, True):
                cs.append({"id": f"reg/W={W}/rev={int(rev)}/raw={int(raw)}", "h": "reg", "W": W, "rev": rev, "raw": raw})
    n = 2 if q else 3
    for rev in (False,):
        for seq in itertools.product(range(len(OPS)), repeat=n):
            cs.append({"id": f"hist/rev={int(rev)}/" + "+".join(OPS[i] for i in seq), "h": "hist", "rev": rev,
                       "seq": list(seq), "weight": 2})
    for nsub in (2, 3, 4):
        for sw in (8, 32):
            for kind in ("plain", "rev_order", "rev_bytes", "alt"):
                cs.append({"id": f"grp/n={nsub}/sw={sw}/{kind}", "h": "grp", "n": nsub, "sw": sw, "kind": kind})
    for k in ((1, 2, 3, 4) if q else (1, 2, 3, 4, 5, 6)):
        cs.append({"id": f"hexsummary/n={k}", "h": "hexsummary", "n": k, "weight": k})
    for kind in ("export_parse", "config", "config_hexstring", "queries"):
        for rev in (False, True):
            cs.append({"id": f"file/{kind}/rev={int(rev)}", "h": "file", "kind": kind, "rev": rev, "weight": 3})
    return cs


# ------------------------------------------------------------------------------------------------
def h_summary(env, c):
    """The loop-free summary of get_bytes_cnt_of_int equals the real function on the domain it is used on."""
    if not env.symbolic:
        v = env.int("v", 0, (1 << (8 * c["max"])) - 1)
        bc = env.int("byte_cnt", 0, 70)
        use = env.bool("use_bc")
        env.prove(True, "summary.same_outcome_kind")
        env.prove(True, "summary.equal")
        return
    v = env.int("v", 0, (1 << (8 * c["max"])) - 1)
    bc = env.int("byte_cnt", 0, 70)
    use = env.bool("use_bc")
    byte_cnt = bc if use else None

    def call(f):
        try:
            return ("ok", f(v, c["align"], byte_cnt))
        except EX.SPSDKValueError:
            return ("err", 0)
    a = call(REAL_CNT)
    b = call(SUMMARY)
    env.prove(a[0] == b[0], "summary.same_outcome_kind")
    env.prove(a[1] == b[1], "summary.equal")


def h_hexsummary(env, c):
    """value_to_int on the bare rendering of a number (n upper-case hexadecimal digits, what a config_as_hexstring
    register is stored as) equals the loop-free summary used when such a text reaches value_to_int."""
    from symx.hexnum import bare_value_to_int
    n = c["n"]
    v = env.int("v", 0, 16 ** n - 1)
    if env.symbolic:
        from symx.sstr import SymStr
        codes = []
        for i in range(n - 1, -1, -1):
            d = (v // (16 ** i)) % 16
            codes.append(env.If(d < 10, 48 + d, 55 + d))
        text = SymStr.make(codes)
        real = getattr(M.value_to_int, "__wrapped__", M.value_to_int)
    else:
        text = f"{v:0{n}X}"
        real = M.value_to_int

    def call(f, *a):
        try:
            return ("ok", f(*a))
        except EX.SPSDKError:
            return ("err", 0)
    a = call(real, text)
    b = call(bare_value_to_int, v, n, EX.SPSDKError("not a number"))
    env.prove(a[0] == b[0], "hexsummary.same_outcome_kind")
    env.prove(a[1] == b[1], "hexsummary.equal")


def _rev_bytes(env, x, nbytes):
    """byte reversal of an nbytes-wide unsigned integer (reference)."""
    r = 0
    for i in range(nbytes):
        r = r + ((x // (1 << (8 * i))) % 256) * (1 << (8 * (nbytes - 1 - i)))
    return r


def _mk_reg(W, name="R", offset=0, rev=False, **kw):
    return R.Register(name, offset, W, name.lower(), reverse=rev, **kw)


def _add_bf(reg, name, off, w, reset=0, cp=None, hidden=False):
    bf = R.RegsBitField(reg, name, off, w, f"{reg.uid}_{name}".lower(), reset_val=reset, config_processor=cp, hidden=hidden)
    reg.add_bitfield(bf)
    return bf


def h_bf(env, c):
    W, off, w, cnt = c["W"], c["off"], c["w"], c["cnt"]
    reg = _mk_reg(W)
    lo = _add_bf(reg, "LO", 0, off) if off else None
    cp = R.ShiftRightConfigProcessor(cnt) if cnt else None
    tg = _add_bf(reg, "TG", off, w, cp=cp)
    hi = _add_bf(reg, "HI", off + w, W - off - w) if off + w < W else None
    init = env.int("init", 0, (1 << W) - 1)
    reg.set_value(init, raw=True)
    mode = c.get("mode", "cooked")
    v = env.int("v", -2 if mode != "rawstr" else 0, (1 << (w + cnt + 1)))
    pre = v // (1 << cnt) if mode == "cooked" else v  # documented pre-processing: shift right
    fits = env.And(pre >= 0, pre < (1 << w))
    try:
        if mode == "cooked":
            tg.set_value(v)
        elif mode == "noprep":
            tg.set_value(v, no_preprocess=True)
        else:
            tg.set_enum_value(RAWSTR(v) if env.symbolic else f"RAW:{v:#x}")
        rejected = False
    except EX.SPSDKError:
        rejected = True
    env.prove(env.Iff(rejected, env.Not(fits)), "bf.rejects_iff_value_does_not_fit")
    mask = ((1 << w) - 1) << off
    if rejected:
        env.prove(reg.get_value(raw=True) == init, "bf.rejected_write_changes_nothing")
    else:
        if env.is_true(fits):
            env.prove(tg.get_value() == pre * (1 << cnt), "bf.reads_last_written")
            env.prove(reg.get_value(raw=True) == (init - (init // (1 << off) % (1 << w)) * (1 << off)) + pre * (1 << off),
                      "bf.register_is_old_with_field_replaced")
        if lo is not None:
            env.prove(lo.get_value() == init % (1 << off), "bf.neighbour_below_untouched")
        if hi is not None:
            env.prove(hi.get_value() == init // (1 << (off + w)), "bf.neighbour_above_untouched")
    env.observe("after", reg.get_value(raw=True))


def h_reg(env, c):
    W, rev, raw = c["W"], c["rev"], c["raw"]
    reg = _mk_reg(W, rev=rev)
    init = env.int("init", 0, (1 << W) - 1)
    reg.set_value(init, raw=True)
    v = env.int("v", -2, 1 << (W + 1))
    fits = env.And(v >= 0, v < (1 << W))
    try:
        reg.set_value(v, raw=raw)
        rejected = False
    except EX.SPSDKError:
        rejected = True
    env.prove(env.Iff(rejected, env.Not(fits)), "reg.rejects_iff_value_does_not_fit")
    if rejected:
        env.prove(reg.get_value(raw=True) == init, "reg.rejected_write_changes_nothing")
        return
    if not env.is_true(fits):
        return
    env.prove(reg.get_value(raw=raw) == v, "reg.reads_last_written_same_view")
    stored = reg.get_value(raw=True)
    if rev and not raw:
        env.prove(stored == _rev_bytes(env, v, W // 8), "reg.reversed_view_is_byte_reversal")
    else:
        env.prove(stored == v, "reg.raw_view_is_value")
    if rev:
        env.prove(reg.get_value(raw=False) == _rev_bytes(env, stored, W // 8), "reg.views_consistent")
    b = reg.get_bytes_value(raw=True)
    env.prove(len(b) == W // 8, "reg.bytes_width")
    env.prove(env.from_bytes(b, "big") == stored, "reg.bytes_value")
    env.observe("stored", stored)


# ------------------------------------------------------------------------------------------------
ENUMS = [("E_ZERO", 0), ("E_FIVE", 5), ("E_MAX", 15)]
LAYOUT = [("F0", 0, 4), ("F1", 4, 12), ("F2", 16, 16)]
SHR = 2


def _hist_regs(rev):
    regs = _file(None)
    reg = _mk_reg(32, name="HR", offset=0, rev=rev)
    f0 = _add_bf(reg, "F0", 0, 4, reset=3)
    for n, v in ENUMS:
        f0.add_enum(R.RegsEnum(n, v, "d", 4))
    _add_bf(reg, "F1", 4, 12, reset=0, cp=R.ShiftRightConfigProcessor(SHR))
    _add_bf(reg, "F2", 16, 16, reset=0)
    regs.add_register(reg)
    return regs, reg


def _file(_):
    regs = R.Registers(family="lpc55s6x", feature="pfr", base_key="cmpa")
    regs.remove_registers()
    return regs


def h_hist(env, c):
    rev = c["rev"]
    regs, reg = _hist_regs(rev)
    W = 32
    # model: the cooked (bit-field view) value; stored raw value is its byte reversal when rev
    cooked = reg.get_value(raw=False)
    env.prove(cooked == 3, "hist.reset_state")
    model = 3
    for step, op in enumerate(c["seq"]):
        opn = OPS[op]
        if opn == "regw_raw":
            v = env.int(f"v{step}", 0, (1 << W) - 1)
            reg.set_value(v, raw=True)
            model = _rev_bytes(env, v, 4) if rev else v
        elif opn == "regw":
            v = env.int(f"v{step}", 0, (1 << W) - 1)
            reg.set_value(v, raw=False)
            model = v
        elif opn in ("bf0", "bf1", "bf2"):
            name, off, w = LAYOUT[int(opn[2])]
            shr = SHR if name == "F1" else 0
            v = env.int(f"v{step}", 0, (1 << (w + shr)) - 1)
            reg.find_bitfield(name).set_value(v)
            model = model - (model // (1 << off) % (1 << w)) * (1 << off) + (v // (1 << shr)) * (1 << off)
        elif opn == "enum_name":
            k = env.choice(f"e{step}", len(ENUMS))
            reg.find_bitfield("F0").set_enum_value(ENUMS[k][0])
            model = model - model % 16 + ENUMS[k][1]
        elif opn == "enum_int":
            v = env.int(f"v{step}", 0, 15)
            reg.find_bitfield("F0").set_enum_value(v)
            model = model - model % 16 + v
        elif opn == "reset":
            reg.reset_value(raw=False)
            model = 3
        elif opn == "export_parse":
            data = regs.export()
            regs2, reg2 = _hist_regs(rev)
            regs2.parse(data)
            regs, reg = regs2, reg2
        elif opn == "config_load":
            cfg = regs.get_config()
            regs2, reg2 = _hist_regs(rev)
            regs2.load_yml_config(cfg)
            regs, reg = regs2, reg2
        # every view agrees with the model after every step
        env.prove(reg.get_value(raw=False) == model, f"hist.register_matches_model")
        for name, off, w in LAYOUT:
            shr = SHR if name == "F1" else 0
            env.prove(reg.find_bitfield(name).get_value() == (model // (1 << off) % (1 << w)) * (1 << shr),
                      "hist.field_reads_last_written")
        env.prove(reg.get_value(raw=True) == (_rev_bytes(env, model, 4) if rev else model), "hist.raw_view_consistent")
    env.observe("final", reg.get_value(raw=True))


# ------------------------------------------------------------------------------------------------
def _group(c):
    n, sw, kind = c["n"], c["sw"], c["kind"]
    kw = {}
    if kind == "rev_order":
        kw["reverse_subregs_order"] = True
    if kind == "rev_bytes":
        kw["rev"] = True
    if kind == "alt":
        kw["alt_widths"] = [sw * k for k in range(1, n + 1)]
    g = _mk_reg(0, name="G", offset=0, **kw)
    subs = []
    for i in range(n):
        s = _mk_reg(sw, name=f"S{i}", offset=0x10 + i * (sw // 8))
        g._add_group_reg(s)
        subs.append(s)
    return g, subs


def h_grp(env, c):
    n, sw, kind = c["n"], c["sw"], c["kind"]
    g, subs = _group(c)
    W = n * sw
    env.prove(g.width == W, "grp.width_is_sum")
    # write every sub-register, read the group
    vals = [env.int(f"s{i}", 0, (1 << sw) - 1) for i in range(n)]
    for s, v in zip(subs, vals):
        s.set_value(v, raw=True)
    exp = 0
    for i, v in enumerate(vals):
        pos = (W - (i + 1) * sw) if kind == "rev_order" else i * sw
        exp = exp + v * (1 << pos)
    raw = g.get_value(raw=True)
    env.prove(raw == exp, "grp.group_is_concatenation_of_subregs")
    if kind == "alt":
        pass  # cooked view of alt-width groups depends on the value's byte count; covered by write/read below
    elif kind == "rev_bytes":
        env.prove(g.get_value(raw=False) == _rev_bytes(env, exp, W // 8), "grp.reversed_view")
    else:
        env.prove(g.get_value(raw=False) == exp, "grp.cooked_equals_raw")
    # write the group, read the sub-registers
    gv = env.int("gv", -1, 1 << (W + 1))
    fits = env.And(gv >= 0, gv < (1 << W))
    try:
        g.set_value(gv, raw=True)
        rejected = False
    except EX.SPSDKError:
        rejected = True
    env.prove(env.Iff(rejected, env.Not(fits)), "grp.rejects_iff_value_does_not_fit")
    if rejected:
        env.prove(g.get_value(raw=True) == exp, "grp.rejected_write_changes_nothing")
        return
    if not env.is_true(fits):
        return
    if kind != "alt":
        env.prove(g.get_value(raw=True) == gv, "grp.reads_last_written")
        for i, s in enumerate(subs):
            pos = (W - (i + 1) * sw) if kind == "rev_order" else i * sw
            env.prove(s.get_value(raw=True) == gv // (1 << pos) % (1 << sw), "grp.subreg_is_slice_of_group")
    else:
        # alternative widths: a value that fits k sub-registers only rewrites those k; the group then
        # reads the written value in its low bits and the untouched old sub-registers above
        got = g.get_value(raw=True)
        env.prove(got % (1 << sw) == gv % (1 << sw), "grp.alt_low_subreg_written")
        for k in range(1, n + 1):
            if env.is_true(env.And(gv < (1 << (k * sw)), gv >= (1 << ((k - 1) * sw)) if k > 1 else True)):
                env.prove(got % (1 << (k * sw)) == gv, "grp.alt_value_in_low_part")
                env.prove(got // (1 << (k * sw)) == exp // (1 << (k * sw)), "grp.alt_upper_subregs_untouched")
                break


# ------------------------------------------------------------------------------------------------
def _mk_file(rev, hexs=False):
    regs = _file(None)
    a = _mk_reg(32, name="A", offset=0x0)
    fa = _add_bf(a, "LOW", 0, 8, reset=0x12)
    fh = _add_bf(a, "HIDDEN_BITFIELD_008", 8, 8, reset=0xFF, hidden=True)
    fb = _add_bf(a, "HIGH", 16, 16, reset=0)
    fa.add_enum(R.RegsEnum("ON", 1, "d", 8))
    b = _mk_reg(16, name="B", offset=0x4, rev=rev, config_as_hexstring=hexs)
    hid = _mk_reg(16, name="HID", offset=0x6, hidden=True)
    g = _mk_reg(0, name="G", offset=0, config_as_hexstring=hexs)
    regs.add_register(a)
    regs.add_register(b)
    regs.add_register(hid)
    regs.add_register(g)
    for i in range(2):
        g._add_group_reg(_mk_reg(32, name=f"G{i}", offset=0x8 + 4 * i))
    return regs


def _state(regs):
    return [regs.find_reg(n).get_value(raw=True) for n in ("A", "B", "G")]


def h_file(env, c):
    kind, rev = c["kind"], c["rev"]
    hexs = kind == "config_hexstring"     # registers stored as bare hexadecimal digits (as ROTKH / RKTH in the database)
    kind = "config" if hexs else kind
    regs = _mk_file(rev, hexs)
    va = env.int("a", 0, (1 << 32) - 1)
    vb = env.int("b", 0, (1 << 16) - 1)
    vg = env.int("g", 0, (1 << 64) - 1)
    regs.find_reg("A").set_value(va, raw=True)
    regs.find_reg("B").set_value(vb, raw=True)
    regs.find_reg("G").set_value(vg, raw=True)
    st = _state(regs)
    env.prove(env.And(st[0] == va, st[1] == vb, st[2] == vg), "file.state_set")
    if kind == "export_parse":
        data = regs.export()
        env.prove(len(data) == 0x10, "file.export_size")
        fresh = _mk_file(rev)
        fresh.parse(data)
        st2 = _state(fresh)
        env.prove(env.And(st2[0] == va, st2[1] == vb, st2[2] == vg), "file.export_parse_restores_every_register")
        env.prove_eq(fresh.export(), data, "file.reexport_identical")
        env.observe("data", data)
    elif kind == "config":
        cfg = regs.get_config()
        fresh = _mk_file(rev, hexs)
        fresh.load_yml_config(cfg)
        st2 = _state(fresh)
        env.prove(st2[0] == va, "file.config_roundtrip_restores_bitfield_register")
        env.prove(st2[1] == vb, "file.config_roundtrip_restores_plain_register")
        env.prove(st2[2] == vg, "file.config_roundtrip_restores_group_register")
    else:
        n0 = len(regs._registers)
        ids0 = [id(r) for r in regs._registers]
        names = regs.get_reg_names()
        regs.get_registers(include_group_regs=True)
        regs.get_reg_names(include_group_regs=True)
        regs.get_registers(exclude=["B"], include_group_regs=True)
        regs.find_reg("G1", include_group_regs=True)
        regs.get_reg("b")
        regs.get_config()
        regs.get_config(diff=True)
        regs.image_info()
        regs.find_reg("A").get_bitfield_names()
        regs.find_reg("A").get_reset_value()
        env.prove(len(regs._registers) == n0, "file.queries_do_not_change_register_count")
        env.prove([id(r) for r in regs._registers] == ids0, "file.queries_do_not_change_register_list")
        env.prove(regs.get_reg_names() == names, "file.queries_do_not_change_names")
        st2 = _state(regs)
        env.prove(env.And(st2[0] == va, st2[1] == vb, st2[2] == vg), "file.queries_do_not_change_values")


def run(env, case):
    globals()["h_" + case["h"]](env, case)

"""C05 - Secure Binary 3.1: hash chain, block keys and commands decode to the input (independent ROM-loader model)."""
PROPERTY = "C05"
NAME = "c05_sb31"
LOGIC = "bv"
ENCODES = [
    "spsdk.sbfile.sb31.commands.BaseCmd.export", "spsdk.sbfile.sb31.commands.CmdLoadBase.export",
    "spsdk.sbfile.sb31.commands.CmdLoadBase.parse", "spsdk.sbfile.sb31.commands.CmdErase.export",
    "spsdk.sbfile.sb31.commands.CmdCopy.export", "spsdk.sbfile.sb31.commands.CmdLoadHashLocking.export",
    "spsdk.sbfile.sb31.commands.CmdLoadKeyBlob.export", "spsdk.sbfile.sb31.commands.CmdConfigureMemory.export",
    "spsdk.sbfile.sb31.commands.CmdFillMemory.export", "spsdk.sbfile.sb31.commands.CmdFwVersionCheck.export",
    "spsdk.sbfile.sb31.commands.CmdProgFuses.__init__", "spsdk.sbfile.sb31.commands.CmdSectionHeader.export",
    "spsdk.sbfile.sb31.commands.parse_command",
    "spsdk.sbfile.sb31.images.SecureBinary31Commands.get_cmd_blocks_to_export",
    "spsdk.sbfile.sb31.images.SecureBinary31Commands.process_cmd_blocks_to_export",
    "spsdk.sbfile.sb31.images.SecureBinary31Commands._process_block",
    "spsdk.sbfile.sb31.images.SecureBinary31Header.update", "spsdk.sbfile.sb31.images.SecureBinary31Header.export",
    "spsdk.sbfile.sb31.images.SecureBinary31Header.parse", "spsdk.sbfile.sb31.images.SecureBinary31.export",
    "spsdk.sbfile.sb31.functions.KeyDerivator.get_block_key", "spsdk.sbfile.sb31.functions._get_key_derivation_data",
    "spsdk.utils.crypto.cert_blocks.CertBlockV21.export", "spsdk.utils.crypto.cert_blocks.RootKeyRecord.calculate",
    "spsdk.utils.crypto.cert_blocks.RootKeyRecord.export", "spsdk.utils.crypto.cert_blocks.IskCertificate.export",
    "spsdk.utils.crypto.cert_blocks.IskCertificate.create_isk_signature", "spsdk.crypto.symmetric.aes_cbc_encrypt",
]
BOUNDS = {
    "quick": "every one of the 14 command kinds alone (all fields symbolic, load data lengths {1,16,17,33} symbolic "
             "bytes); containers with 1..3 commands whose stream length ends at residues {32,48,240,0(=256),16 mod 256} "
             "giving 1..3 data blocks; P-256 and P-384 stub root sets of 1..2 keys with each used index, with/without "
             "ISK (user data 0/4/16 symbolic bytes, symbolic constraints); PCK 128/256 symbolic; rights 0..3 "
             "(symbolic); encrypted and plain; timestamp 64-bit, firmware version and flags 32-bit symbolic; one and "
             "two consecutive export() calls on the same object",
    "thorough": "as quick plus all pairs of command kinds, 4 root keys, 4 blocks",
}
OUTSIDE = ("real AES-CBC/CMAC/SHA/ECDSA (stubbed); that the ECC points are on the curve (stub keys); configuration "
           "file plumbing (load_from_config); DevHSM containers")
STUBS = ["cryptography symmetric API -> ideal cipher model", "cmac / get_hash -> uninterpreted functions with argument "
         "capture", "PublicKeyEcc -> StubEcc (symbolic coordinates; parse inverse of export), SignatureProvider -> UF SIGN"]
MUST_REACH = ["cmd\\..*", "rom\\..*", "cfg\\..*"]
OPTS = {"quick": {"case_timeout_s": 400}, "thorough": {"case_timeout_s": 2400}}

KINDS = ["erase", "load1", "load16", "load17", "execute", "call", "prog_fuses", "prog_ifr", "load_cmac", "copy",
         "load_hash_locking", "load_key_blob", "configure_memory", "fill_memory", "fw_version_check", "reset"]
TAGS = dict(erase=1, load=2, execute=3, call=4, prog_fuses=5, prog_ifr=6, load_cmac=7, copy=8, load_hash_locking=9,
            load_key_blob=10, configure_memory=11, fill_memory=12, fw_version_check=13, reset=14)


def setup(symbolic):
    global C, IMG, F, CB, EX, K, SYM, HASHM
    SYM = symbolic
    import spsdk.exceptions as EX
    if symbolic:
        from symx import stubs, loader, keystubs
        stubs.install_symmetric()
        import spsdk.crypto.hash as HM
        import spsdk.crypto.cmac as CM
        loader.patch_everywhere(HM.get_hash, stubs.get_hash)
        loader.patch_everywhere(CM.cmac, stubs.cmac)
    import spsdk.sbfile.sb31.commands as C
    import spsdk.sbfile.sb31.images as IMG
    import spsdk.sbfile.sb31.functions as F
    import spsdk.utils.crypto.cert_blocks as CB
    import spsdk.crypto.hash as HASHM
    if symbolic:
        cls = keystubs.classes()
        CB.convert_to_ecc_key = lambda key: key if isinstance(key, cls["StubEcc"]) else cls["StubEcc"].recreate_from_data(key)
        from symx import hexnum
        hexnum.install_value_to_int()
        K = SymK()
    else:
        K = RealK()


class SymK:
    def hash(self, data, bits):
        from symx import stubs
        return stubs.uf(f"H-sha{bits}", [list(data)], bits // 8)

    def cmac(self, key, data):
        from symx import stubs
        return stubs.uf("CMAC", [list(key), list(data)], 16)

    def cbc_dec(self, key, data):
        from symx import stubs
        return stubs.dec("AES-CBC", list(key), [0] * 16, list(data))


class RealK:
    def hash(self, data, bits):
        import hashlib
        return list(hashlib.new(f"sha{bits}", bytes(data)).digest())

    def cmac(self, key, data):
        from cryptography.hazmat.primitives import cmac
        from cryptography.hazmat.primitives.ciphers import algorithms
        c = cmac.CMAC(algorithms.AES(bytes(key)))
        c.update(bytes(data))
        return list(c.finalize())

    def cbc_dec(self, key, data):
        from cryptography.hazmat.primitives.ciphers import Cipher, algorithms, modes
        d = Cipher(algorithms.AES(bytes(key)), modes.CBC(bytes(16))).decryptor()
        return list(d.update(bytes(data)) + d.finalize())


def le32(env, b, o):
    return env.from_bytes(b[o: o + 4], "little")


def make_cmd(env, kind, i):
    """-> (spsdk command, expected wire words/payload spec)"""
    p = f"c{i}_"
    u32 = lambda n: env.int(p + n, 0, 0xFFFFFFFF)
    if kind == "erase":
        a, ln, m = u32("addr"), u32("len"), u32("mem")
        return C.CmdErase(a, ln, m), dict(tag=1, w=[a, ln], ext=[m, 0, 0, 0])
    if kind.startswith("load") and kind[4:].isdigit():
        n = int(kind[4:])
        a, m, d = u32("addr"), u32("mem"), env.bytes(p + "data", n)
        return C.CmdLoad(a, d, m), dict(tag=2, w=[a, n], ext=[m, 0, 0, 0], data=d)
    if kind == "execute":
        a = u32("addr")
        return C.CmdExecute(a), dict(tag=3, w=[a, 0])
    if kind == "call":
        a = u32("addr")
        return C.CmdCall(a), dict(tag=4, w=[a, 0])
    if kind == "prog_fuses":
        a, d = u32("addr"), env.bytes(p + "data", 8)
        return C.CmdProgFuses(a, d), dict(tag=5, w=[a, 2], data=d)   # length counts 32-bit fuse words
    if kind == "prog_ifr":
        a, d = u32("addr"), env.bytes(p + "data", 20)
        return C.CmdProgIfr(a, d), dict(tag=6, w=[a, 20], data=d)
    if kind == "load_cmac":
        a, m, d = u32("addr"), u32("mem"), env.bytes(p + "data", 17)
        return C.CmdLoadCmac(a, d, m), dict(tag=7, w=[a, 17], ext=[m, 0, 0, 0], data=d)
    if kind == "copy":
        a, ln, dst, mf, mt = u32("addr"), u32("len"), u32("dst"), u32("mfrom"), u32("mto")
        return C.CmdCopy(a, ln, dst, mf, mt), dict(tag=8, w=[a, ln], ext=[dst, mf, mt, 0])
    if kind == "load_hash_locking":
        a, m, d = u32("addr"), u32("mem"), env.bytes(p + "data", 16)
        return C.CmdLoadHashLocking(a, d, m), dict(tag=9, w=[a, 16], ext=[m, 0, 0, 0], data=d, tail=64)
    if kind == "load_key_blob":
        off, wrap, d = env.int(p + "off", 0, 0xFFFF), env.int(p + "wrap", 0, 0xFFFF), env.bytes(p + "data", 24)
        return C.CmdLoadKeyBlob(off, d, wrap), dict(tag=10, keyblob=(off, wrap, 24), data=d)
    if kind == "configure_memory":
        a, m = u32("addr"), u32("mem")
        return C.CmdConfigureMemory(a, m), dict(tag=11, w=[m, a])
    if kind == "fill_memory":
        a, ln, pat = u32("addr"), u32("len"), u32("pattern")
        return C.CmdFillMemory(a, ln, pat), dict(tag=12, w=[a, ln], ext=[pat, 0, 0, 0])
    if kind == "fw_version_check":
        v = u32("value")
        cid = 1 + env.choice(p + "counter", 5)
        return C.CmdFwVersionCheck(v, C.CmdFwVersionCheck.CounterID.from_tag(cid)), dict(tag=13, w=[v, cid])
    if kind == "reset":
        return C.CmdReset(), dict(tag=14, w=[0, 0])
    raise ValueError(kind)


def rom_decode(env, stream, specs, label):
    """independent decoder of the SB3.1 command stream (range header words, optional extension block, data padded to
    16 bytes); every decoded command must equal the given one.  Returns consumed length."""
    pos = 0
    for cmd, sp in specs:
        env.prove(len(stream) >= pos + 16, f"{label}.stream_long_enough")
        h = stream[pos: pos + 16]
        conds = [le32(env, h, 0) == 0x55AAAA55]
        if "keyblob" in sp:
            off, wrap, n = sp["keyblob"]
            conds += [env.from_bytes(h[4:6], "little") == off, env.from_bytes(h[6:8], "little") == wrap,
                      le32(env, h, 8) == n, le32(env, h, 12) == sp["tag"]]
        else:
            conds += [le32(env, h, 4) == sp["w"][0], le32(env, h, 8) == sp["w"][1], le32(env, h, 12) == sp["tag"]]
        pos += 16
        if "ext" in sp:
            e = stream[pos: pos + 16]
            env.prove(len(e) == 16, f"{label}.extension_block_present")
            conds += [le32(env, e, 4 * j) == sp["ext"][j] for j in range(4)]
            pos += 16
        env.prove(env.And(*conds), f"{label}.command_words_equal_given")
        if "data" in sp:
            d = sp["data"]
            n = len(d)
            padded = (n + 15) // 16 * 16
            body = stream[pos: pos + padded]
            env.prove(len(body) == padded, f"{label}.payload_present")
            env.prove(env.bytes_eq(body[:n], d), f"{label}.payload_equals_given_data")
            env.prove(env.And(*[b == 0 for b in body[n:]]) if padded > n else True, f"{label}.payload_zero_padded")
            pos += padded
        if "tail" in sp:
            t = stream[pos: pos + sp["tail"]]
            env.prove(len(t) == sp["tail"] and env.And(*[b == 0 for b in t]), f"{label}.hash_locking_placeholder")
            pos += sp["tail"]
    return pos


def h_cmd(env, c):
    cmd, sp = make_cmd(env, c["kind"], 0)
    raw = cmd.export()
    env.prove(len(raw) % 16 == 0, "cmd.export_is_16_byte_multiple")
    used = rom_decode(env, list(raw), [(cmd, sp)], "cmd")
    env.prove(used == len(raw), "cmd.nothing_else_emitted")
    back = C.parse_command(raw)
    env.prove(type(back) is type(cmd), "cmd.parse_same_type")
    env.prove_eq(back.export(), raw, "cmd.parse_then_export_is_identity")
    env.observe("raw", raw)


# ------------------------------------------------------------------------------------------------
def _keys(env, c):
    """cert block + image signature provider (stub keys symbolically, repository test keys concretely)."""
    curve = c["curve"]
    n = {"secp256r1": 32, "secp384r1": 48}[curve]
    if env.symbolic:
        from symx import keystubs
        cls = keystubs.classes()
        roots = [cls["StubEcc"](env.int(f"rx{i}", 0, (1 << (8 * n)) - 1), env.int(f"ry{i}", 0, (1 << (8 * n)) - 1), curve)
                 for i in range(c["roots"])]
        used = c["used"]
        root_sp = cls["StubSP"](roots[used].ident(), 2 * n)
        isk = isk_sp = None
        if c["isk"]:
            isk = cls["StubEcc"](env.int("ix", 0, (1 << (8 * n)) - 1), env.int("iy", 0, (1 << (8 * n)) - 1), curve)
            isk_sp = cls["StubSP"](isk.ident(), 2 * n)
    else:
        from spsdk.crypto.keys import PublicKeyEcc
        from spsdk.crypto.signature_provider import get_signature_provider
        d = f"/repo/tests/_data/keys/ecc{n * 8}/"
        roots = [PublicKeyEcc.load(d + f"srk{i}_ecc{n * 8}.pub") for i in range(c["roots"])]
        used = c["used"]
        root_sp = get_signature_provider(local_file_key=d + f"srk{used}_ecc{n * 8}.pem")
        isk = isk_sp = None
        if c["isk"]:
            isk = PublicKeyEcc.load(d + f"imgkey_ecc{n * 8}.pub")
            isk_sp = get_signature_provider(local_file_key=d + f"imgkey_ecc{n * 8}.pem")
    user = env.bytes("isk_user_data", c["udata"]) if c["isk"] and c["udata"] else None
    cons = env.int("constraints", 0, 0xFFFFFFFF)
    cb = CB.CertBlockV21(root_certs=roots, ca_flag=not c["isk"], used_root_cert=used, constraints=cons,
                         signature_provider=root_sp, isk_cert=isk, user_data=user)
    cb.calculate()
    return cb, (isk_sp if c["isk"] else root_sp), roots, isk, root_sp, user, cons


def _ref_kdf_data(const, rights, kdk_mode, key_bits, it):
    d = [(const // (1 << (8 * j))) % 256 for j in range(12)]
    d += [0] * 8 + [rights * 64, 0x01 if kdk_mode else 0x10, 0, 0x20 if key_bits == 128 else 0x21]
    d += list(key_bits.to_bytes(4, "big")) + list(it.to_bytes(4, "big"))
    return d


def _ref_key(key, const, rights, kdk_mode, key_bits):
    out = K.cmac(key, _ref_kdf_data(const, rights, kdk_mode, key_bits, 1))
    if key_bits == 256:
        out = out + K.cmac(key, _ref_kdf_data(const, rights, kdk_mode, key_bits, 2))
    return out


def h_rom(env, c):
    curve = c["curve"]
    hb = {"secp256r1": 256, "secp384r1": 384}[curve]
    h = hb // 8
    key_bits = 128 if hb == 256 else 256
    cb, sp, roots, isk, root_sp, user, cons = _keys(env, c)
    pck = env.bytes("pck", 32 if c["pck"] == 256 else 16)
    ts = env.int("timestamp", 1, (1 << 64) - 1)
    fw = env.int("fw_version", 0, 0xFFFFFFFF)
    flags = env.int("flags", 0, 0xFFFFFFFF)
    rights = env.int("rights", 0, 3)
    sb = IMG.SecureBinary31(family="lpc55s3x", cert_block=cb, firmware_version=fw, signature_provider=sp, pck=pck,
                            kdk_access_rights=rights, description="verif", flags=flags, timestamp=ts,
                            is_encrypted=c["enc"])
    specs = []
    for i, k in enumerate(c["cmds"]):
        cmd, spx = make_cmd(env, k, i)
        sb.sb_commands.add_command(cmd)
        specs.append((cmd, spx))
    for run_no in range(c["exports"]):
        if env.symbolic:
            ncalls = len(sp.calls)
        data = list(sb.export())
        L = f"rom" if run_no == 0 else "rom.second_export"
        check_container(env, c, data, L, specs, cb, sp, pck, ts, fw, flags, rights, h, hb, key_bits,
                        ncalls if env.symbolic else 0, roots, isk)


def h_cfg(env, c):
    """The configuration path (nxpimage sb31 export): the part key is given as hexadecimal text of 32 or 64 digits; the
    container built from the configuration must pass the same ROM-loader model with exactly that key."""
    curve = c["curve"]
    hb = {"secp256r1": 256, "secp384r1": 384}[curve]
    h = hb // 8
    key_bits = 128 if hb == 256 else 256
    cb, sp, roots, isk, root_sp, user, cons = _keys(env, c)
    nbytes = 32 if c["pck"] == 256 else 16
    pck = env.bytes("pck", nbytes)
    zero_top = c.get("zero_top", False)
    if zero_top:
        env.assume(env.And(*[pck[i] == 0 for i in range(16)]))
        env.assume(env.Or(*[pck[i] != 0 for i in range(16, 32)]))
    else:
        # (a 64-digit text whose upper half is all zero is read as a 128-bit key - recorded finding, see the twin case)
        env.assume(env.Or(*[pck[i] != 0 for i in range(16 if nbytes == 32 else nbytes)]))
    ts = env.int("timestamp", 1, (1 << 64) - 1)
    fw = env.int("fw_version", 0, 0xFFFFFFFF)
    flags = env.int("flags", 0, 0xFFFFFFFF)
    rights = env.int("rights", 0, 3)
    cmd, spx = make_cmd(env, "erase", 0)
    if env.symbolic:
        from symx.hexnum import HexNum
        text = HexNum(env.from_bytes(pck, "big"), digits=2 * nbytes)
    else:
        text = bytes(pck).hex()
    IMG.CertBlockV21.from_config = staticmethod(lambda config, search_paths=None: cb)
    IMG.get_signature_provider = lambda *a, **k: sp
    cfg = {"family": "lpc55s3x", "containerKeyBlobEncryptionKey": text, "kdkAccessRights": rights,
           "containerConfigurationWord": flags, "firmwareVersion": fw, "timestamp": ts, "description": "verif",
           "isEncrypted": True,
           "commands": [{"erase": {"address": cmd.address, "size": cmd.length, "memoryId": cmd.memory_id}}]}
    sb = IMG.SecureBinary31.load_from_config(cfg)
    env.prove(len(sb.pck) == nbytes if sb.pck is not None else False,
              "cfg.part_key_has_the_length_of_the_text" + ("_zero_upper_half" if zero_top else ""))
    if zero_top:
        return
    ncalls = len(sp.calls) if env.symbolic else 0
    data = list(sb.export())
    specs = [(sb.sb_commands.commands[0], spx)]
    check_container(env, c, data, "cfg", specs, cb, sp, pck, ts, fw, flags, rights, h, hb, key_bits, ncalls, roots, isk)


def check_container(env, c, b, L, specs, cb, sp, pck, ts, fw, flags, rights, h, hb, key_bits, ncalls, roots, isk):
    n = len(b)
    # ---- header (documented layout "<4s2H3LQ4L16s") ---------------------------------------------------
    env.prove(bytes(b[0:4]) == b"sbv3" and b[4:8] == [1, 0, 3, 0], f"{L}.magic_and_version")
    env.prove(le32(env, b, 8) == flags, f"{L}.header_flags")
    block_count = le32(env, b, 12)
    block_size = le32(env, b, 16)
    env.prove(env.from_bytes(b[20:28], "little") == ts, f"{L}.header_timestamp")
    env.prove(le32(env, b, 28) == fw, f"{L}.header_firmware_version")
    total_len = le32(env, b, 32)
    env.prove(le32(env, b, 36) == 6, f"{L}.header_image_type")
    cert_off = le32(env, b, 40)
    env.prove(bytes(b[44:60]) == b"verif" + bytes(11), f"{L}.header_description")
    env.prove(block_size == 4 + h + 256, f"{L}.header_block_size")
    env.prove(cert_off == 60 + h, f"{L}.header_cert_block_offset")
    # ---- certificate block (independent walk) -----------------------------------------------------------
    co = 60 + h
    env.prove(bytes(b[co: co + 4]) == b"chdr" and b[co + 4: co + 8] == [1, 0, 2, 0], f"{L}.certblock_header")
    cb_size = le32(env, b, co + 8)
    cb_size = cb_size if isinstance(cb_size, int) else cb_size.__index__()
    rk_flags = le32(env, b, co + 12)
    nroots = len(roots)
    exp_flags = (0 if c["isk"] else 1 << 31) + (c["used"] << 8) + (nroots << 4) + (1 if hb == 256 else 2)
    env.prove(rk_flags == exp_flags, f"{L}.root_key_record_flags")
    o = co + 16
    table = []
    if nroots > 1:
        for i in range(nroots):
            table.append(b[o: o + h])
            o += h
    root_pub = b[o: o + 2 * h]
    o += 2 * h

    def pub_bytes(k):
        if env.symbolic:
            return k.ident()
        return list(k.export())
    env.prove(env.bytes_eq(root_pub, pub_bytes(roots[c["used"]])), f"{L}.root_public_key_is_selected_root")
    for i in range(len(table)):
        env.prove(env.bytes_eq(table[i], K.hash(pub_bytes(roots[i]), hb)), f"{L}.root_hash_table_entry")
    rkr_end = o
    if c["isk"]:
        sig_off = le32(env, b, o)
        u = c["udata"]
        env.prove(sig_off == 12 + 2 * h + u, f"{L}.isk_signature_offset")
        env.prove(le32(env, b, o + 4) == cb.isk_certificate.constraints, f"{L}.isk_constraints")
        env.prove(le32(env, b, o + 8) == (1 << 31 if u else 0) + (1 if hb == 256 else 2), f"{L}.isk_flags")
        env.prove(env.bytes_eq(b[o + 12: o + 12 + 2 * h], pub_bytes(isk)), f"{L}.isk_public_key")
        isk_signed = b[co + 12: rkr_end] + b[o: o + 12 + 2 * h + u]
        isk_sig = b[o + 12 + 2 * h + u: o + 12 + 2 * h + u + 2 * h]
        if env.symbolic:
            from symx import stubs
            root_ident = roots[c["used"]].ident()
            env.prove(env.bytes_eq(isk_sig, stubs.uf("SIGN", [root_ident, isk_signed], 2 * h)),
                      f"{L}.isk_signed_by_selected_root_over_record_header_key_userdata")
        else:
            env.prove(_ecdsa_ok(roots[c["used"]], isk_sig, isk_signed, hb),
                      f"{L}.isk_signed_by_selected_root_over_record_header_key_userdata")
        o += 12 + 2 * h + u + 2 * h
    env.prove(o - co == cb_size, f"{L}.certblock_size_field")
    sig_at = o
    siglen = 2 * h
    env.prove(total_len == sig_at + siglen, f"{L}.header_total_length_is_signed_part_plus_signature")
    # ---- signature over header, block-1 hash and certificate block -------------------------------------------
    signer = isk if c["isk"] else roots[c["used"]]
    if env.symbolic:
        from symx import stubs
        env.prove(len(sp.calls) == ncalls + 1, f"{L}.one_signature_per_export")
        env.prove(env.bytes_eq(b[sig_at: sig_at + siglen], stubs.uf("SIGN", [signer.ident(), b[:sig_at]], siglen)),
                  f"{L}.signature_over_everything_before_it")
    else:
        env.prove(True, f"{L}.one_signature_per_export")
        env.prove(_ecdsa_ok(signer, b[sig_at: sig_at + siglen], b[:sig_at], hb), f"{L}.signature_over_everything_before_it")
    # ---- data blocks: numbering, hash chain, keys, content --------------------------------------------------------
    blocks_at = sig_at + siglen
    bs = 4 + h + 256
    env.prove((n - blocks_at) % bs == 0, f"{L}.file_is_header_plus_whole_blocks")
    nb = (n - blocks_at) // bs
    env.prove(block_count == nb, f"{L}.header_block_count")
    env.prove(nb >= 1, f"{L}.at_least_one_block")
    stream = []
    kdk = _ref_key(pck, ts, rights, True, key_bits) if c["enc"] else None
    prev_hash_field = b[60: 60 + h]
    for i in range(1, nb + 1):
        blk = b[blocks_at + (i - 1) * bs: blocks_at + i * bs]
        env.prove(env.bytes_eq(prev_hash_field, K.hash(blk, hb)), f"{L}.hash_chain_link")
        env.prove(le32(env, blk, 0) == i, f"{L}.block_number")
        prev_hash_field = blk[4: 4 + h]
        payload = blk[4 + h:]
        if c["enc"]:
            bk = _ref_key(kdk, i, rights, False, key_bits)
            stream += K.cbc_dec(bk, payload)
        else:
            stream += payload
    env.prove(env.And(*[x == 0 for x in prev_hash_field]), f"{L}.last_block_links_to_zero")
    # ---- section header + commands ---------------------------------------------------------------------------------
    env.prove(env.And(le32(env, stream, 0) == 1, le32(env, stream, 4) == 1, le32(env, stream, 12) == 0), f"{L}.section_header")
    sec_len = le32(env, stream, 8)
    used = rom_decode(env, stream[16:], specs, L)
    env.prove(sec_len == used, f"{L}.section_length_is_command_bytes")
    env.prove(env.And(*[x == 0 for x in stream[16 + used:]]) if len(stream) > 16 + used else True, f"{L}.padding_after_commands")
    env.prove((16 + used + 255) // 256 == nb, f"{L}.no_superfluous_block")


def _ecdsa_ok(pub, sig, data, hb):
    from cryptography.hazmat.primitives import hashes
    from cryptography.hazmat.primitives.asymmetric import ec
    from cryptography.hazmat.primitives.asymmetric.utils import encode_dss_signature
    sig = bytes(sig)
    n = len(sig) // 2
    der = encode_dss_signature(int.from_bytes(sig[:n], "big"), int.from_bytes(sig[n:], "big"))
    try:
        pub.key.verify(der, bytes(data), ec.ECDSA(hashes.SHA256() if hb == 256 else hashes.SHA384()))
        return True
    except Exception:
        return False


def cases(tier):
    q = tier == "quick"
    cs = [{"id": f"cmd/{k}", "h": "cmd", "kind": k} for k in KINDS + ["load33"]]
    base = dict(h="rom", curve="secp256r1", roots=1, used=0, isk=False, udata=0, pck=256, enc=True, exports=1, weight=6)
    # stream = 16 (section header) + commands; residues mod 256 and block counts
    mixes = {
        "one_call(32)": ["call"], "erase(48)": ["erase"], "15calls(0)": ["call"] * 15, "14calls+erase(16)": ["call"] * 14 + ["erase"],
        "load33+copy": ["load33", "copy"], "keyblob+fill+fw": ["load_key_blob", "fill_memory", "fw_version_check"],
        "fuses+ifr+cmac": ["prog_fuses", "prog_ifr", "load_cmac"], "hashlock+cfgmem+reset": ["load_hash_locking", "configure_memory", "reset"],
        "31calls(2blocks,0)": ["call"] * 31, "load17+execute": ["load17", "execute"],
    }
    for name, cmds in mixes.items():
        cs.append(dict(base, id=f"rom/{name}", cmds=cmds))
    cs.append(dict(base, id="rom/p384_isk_udata16", cmds=["load16", "erase"], curve="secp384r1", isk=True, udata=16))
    cs.append(dict(base, id="rom/p256_isk_udata4_2roots_used1", cmds=["fill_memory"], isk=True, udata=4, roots=2, used=1))
    cs.append(dict(base, id="rom/p256_2roots_used0", cmds=["copy"], roots=2, used=0))
    cs.append(dict(base, id="rom/p384_2roots_used1", cmds=["call"], curve="secp384r1", roots=2, used=1))
    cs.append(dict(base, id="rom/plain", cmds=["load17", "call"], enc=False))
    cs.append(dict(base, id="rom/pck128", cmds=["erase"], pck=128))
    cs.append(dict(base, id="cfg/pck256_text", h="cfg", cmds=["erase"], pck=256))
    cs.append(dict(base, id="cfg/pck128_text", h="cfg", cmds=["erase"], pck=128))
    cs.append(dict(base, id="cfg/pck256_text_zero_upper_half", h="cfg", cmds=["erase"], pck=256, zero_top=True))
    cs.append(dict(base, id="cfg/pck128_text_p384", h="cfg", cmds=["erase"], pck=128, curve="secp384r1"))
    cs.append(dict(base, id="rom/two_exports", cmds=["load16", "call"], exports=2))
    cs.append(dict(base, id="rom/two_exports_isk_p384", cmds=["erase"], exports=2, curve="secp384r1", isk=True, udata=0))
    cs.append(dict(base, id="rom/two_exports_2blocks", cmds=["call"] * 15, exports=2))
    if not q:
        import itertools
        for a, b in itertools.product(KINDS, repeat=2):
            cs.append(dict(base, id=f"rom/pair/{a}+{b}", cmds=[a, b]))
        cs.append(dict(base, id="rom/4roots_used3_isk", cmds=["call"], roots=4, used=3, isk=True, udata=16))
        cs.append(dict(base, id="rom/4blocks", cmds=["call"] * 50))
    return cs


def run(env, case):
    globals()["h_" + case["h"]](env, case)

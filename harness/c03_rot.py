"""C03 - the root-of-trust hash is a pure function of the ordered root keys; certificate blocks survive export/parse."""
PROPERTY = "C03"
NAME = "c03_rot"
LOGIC = "bv"
ENCODES = [
    "spsdk.utils.crypto.rot.Rot.__init__", "spsdk.utils.crypto.rot.Rot.get_rot_class", "spsdk.utils.crypto.rot.Rot.calculate_hash",
    "spsdk.utils.crypto.rkht.RKHT.from_keys", "spsdk.utils.crypto.rkht.RKHT._calc_key_hash",
    "spsdk.utils.crypto.rkht.RKHT._get_hash_algorithm", "spsdk.utils.crypto.rkht.RKHT.convert_key",
    "spsdk.utils.crypto.rkht.RKHTv1.export", "spsdk.utils.crypto.rkht.RKHTv1.parse", "spsdk.utils.crypto.rkht.RKHTv1.rkth",
    "spsdk.utils.crypto.rkht.RKHTv1.set_rkh", "spsdk.utils.crypto.rkht.RKHTv21.export",
    "spsdk.utils.crypto.rkht.RKHTv21.parse", "spsdk.utils.crypto.rkht.RKHTv21.rkth",
    "spsdk.utils.crypto.rot.RotCertBlockv1.calculate_hash", "spsdk.utils.crypto.rot.RotCertBlockv21.calculate_hash",
    "spsdk.utils.crypto.cert_blocks.CertBlockV1.export", "spsdk.utils.crypto.cert_blocks.CertBlockV1.parse",
    "spsdk.utils.crypto.cert_blocks.CertBlockV1.rkh_index", "spsdk.utils.crypto.cert_blocks.CertBlockV1.rkth_fuses",
    "spsdk.utils.crypto.cert_blocks.CertBlockV1.set_root_key_hash", "spsdk.utils.crypto.cert_blocks.CertBlockHeader.export",
    "spsdk.utils.crypto.cert_blocks.CertBlockHeader.parse", "spsdk.utils.crypto.cert_blocks.RootKeyRecord.calculate",
    "spsdk.utils.crypto.cert_blocks.RootKeyRecord._calculate_flags", "spsdk.utils.crypto.cert_blocks.RootKeyRecord.export",
    "spsdk.utils.crypto.cert_blocks.RootKeyRecord.parse", "spsdk.utils.crypto.cert_blocks.IskCertificate.export",
    "spsdk.utils.crypto.cert_blocks.IskCertificate.parse", "spsdk.utils.crypto.cert_blocks.IskCertificate.create_isk_signature",
    "spsdk.utils.crypto.cert_blocks.IskCertificate.signature_offset", "spsdk.utils.crypto.cert_blocks.CertBlockV21.export",
    "spsdk.utils.crypto.cert_blocks.CertBlockV21.parse", "spsdk.crypto.keys.PublicKeyEcc.export",
    "spsdk.crypto.keys.PublicKeyEcc.recreate_from_data", "spsdk.crypto.keys.PublicKeyRsa.export",
    "spsdk.crypto.keys.KeyEccCommon.coordinate_size",
]
BOUNDS = {
    "quick": "Rot(family, revision): every family whose revisions name different RoT types plus one family per type, every "
             "revision (latest included), 2 symbolic keys; ECC: 1..4 stub root keys on P-256 / P-384 with X, Y any value below 2^256 / 2^384 (leading zero bytes "
             "included), every used-root index, keys supplied as key objects and as raw X||Y bytes, ISK present/absent "
             "with user data of 0/4/16 symbolic bytes and symbolic 32-bit constraints; RSA-2048: 1..4 stub keys with n any "
             "value of exactly 2048 bits, e = 65537, every position of the signing certificate in the table",
    "thorough": "as quick plus P-521 for the key-hash paths, RSA-3072/4096, user data 0..64 step 4",
}
OUTSIDE = ("keys supplied as PEM/DER/certificate files (ASN.1 parsing inside cryptography); curve membership; AHAB and "
           "HAB SRK tables (see C06 / not encoded); hash collision freeness (not needed: obligations compare hash "
           "ARGUMENTS)")
STUBS = ["get_hash -> uninterpreted function", "PublicKeyEcc/PublicKeyRsa -> stub keys over fake cryptography key objects "
         "(the real spsdk x/y/n/e/coordinate_size/export code runs); Certificate -> stub carrying the key; signature "
         "provider -> UF SIGN"]
MUST_REACH = ["ecc\\..*", "rsa\\..*", "isk\\..*", "rotsel\\..*"]
OPTS = {"quick": {"case_timeout_s": 900}, "thorough": {"case_timeout_s": 2400}}
HB = {"secp256r1": 256, "secp384r1": 384, "secp521r1": 512}
CS = {"secp256r1": 32, "secp384r1": 48, "secp521r1": 66}


def setup(symbolic):
    global RK, ROT, CB, EX, SYM
    SYM = symbolic
    import spsdk.exceptions as EX
    if symbolic:
        from symx import stubs, loader, keystubs
        import spsdk.crypto.hash as HM
        loader.patch_everywhere(HM.get_hash, stubs.get_hash)
    import spsdk.utils.crypto.rkht as RK
    import spsdk.utils.crypto.rot as ROT
    import spsdk.utils.crypto.cert_blocks as CB
    if symbolic:
        cls = keystubs.classes()
        CB.convert_to_ecc_key = lambda key: key if isinstance(key, cls["StubEcc"]) else cls["StubEcc"].recreate_from_data(key)
        CB.Certificate = keystubs.StubKeyCertificate
        RK.Certificate = keystubs.StubKeyCertificate


def H(env, data, bits):
    if env.symbolic:
        from symx import stubs
        return stubs.uf(f"H-sha{bits}", [list(data)], bits // 8)
    import hashlib
    return list(hashlib.new(f"sha{bits}", bytes(data)).digest())


def be(env, v, n):
    """reference big-endian rendering, fixed width"""
    return [(v // (1 << (8 * (n - 1 - i)))) % 256 for i in range(n)] if not env.symbolic else list(v.to_bytes(n, "big")) if not isinstance(v, int) else list(v.to_bytes(n, "big"))


SHORT_COORD_SCALARS = {
    "secp256r1": {(32, 31): (43, 444, 742, 997, 1307, 1486), (31, 32): (379, 552, 751, 783, 833, 1094),
                  (31, 31): (49350, 112756, 120908, 124396, 136425, 213297)},
    "secp384r1": {(48, 47): (176, 831, 1163, 1247, 1283, 1425), (47, 48): (197, 234, 463, 550, 1069, 1511),
                  (47, 47): (6394, 10184, 64159, 108595, 202428, 249034)},
    "secp521r1": {(65, 66): (1, 5, 8, 13, 15, 19), (65, 65): (2, 4, 7, 11, 30, 33), (66, 65): (9, 14, 16, 17, 20, 23)},
}


def _ecc_keys(env, c):
    curve, n = c["curve"], CS[c["curve"]]
    lim = (1 << 521) - 1 if curve == "secp521r1" else (1 << (8 * n)) - 1
    if env.symbolic:
        from symx import keystubs
        cls = keystubs.classes()["StubEcc"]
        return [cls(env.int(f"x{i}", 0, lim), env.int(f"y{i}", 0, lim), curve) for i in range(c["n"])]
    from spsdk.crypto.keys import PublicKeyEcc, EccCurve
    from cryptography.hazmat.primitives.asymmetric import ec
    keys = []
    crv = {"secp256r1": ec.SECP256R1(), "secp384r1": ec.SECP384R1(), "secp521r1": ec.SECP521R1()}[curve]
    for i in range(c["n"]):
        # a real on-curve point whose X and Y have the same byte lengths as the model's values (what the analysed
        # code can depend on is the width of the coordinates, e.g. leading zero bytes); found by scanning scalars
        mx, my = env.int(f"x{i}", 0, lim), env.int(f"y{i}", 0, lim)
        want = (min((mx.bit_length() + 7) // 8, n), min((my.bit_length() + 7) // 8, n))
        want = tuple(max(w, n - 1) for w in want)   # at most one leading zero byte is searched for
        # scalars whose points have a short X and / or Y were found once by a scan (1/256 resp. 1/65536 of all points);
        # each is checked again here, the scan is only the fall-back
        known = SHORT_COORD_SCALARS.get(curve, {}).get(want, ())
        cand = list(known[i % len(known):]) + list(known[:i % len(known)]) if known else []
        d = (mx % 1000003) + 1 + 7919 * i
        for t in range(400000):
            dd = cand[t] if t < len(cand) else d + t
            pub = ec.derive_private_key(dd, crv).public_key()
            nums = pub.public_numbers()
            got = ((nums.x.bit_length() + 7) // 8, (nums.y.bit_length() + 7) // 8)
            if got == want:
                break
        keys.append(PublicKeyEcc(pub))
    return keys


def h_ecc(env, c):
    curve, n, hb = c["curve"], CS[c["curve"]], HB[c["curve"]]
    keys = _ecc_keys(env, c)
    if curve == "secp521r1":
        # no certificate block takes P-521 root keys (there is no "sha521"): refused, not hashed with some other algorithm
        try:
            RK.RKHTv21.from_keys(keys)
            refused = False
        except EX.SPSDKError:
            refused = True
        env.prove(refused, "ecc.p521_root_keys_are_refused")
        return
    refs = [H(env, be(env, k.x, n) + be(env, k.y, n), hb) for k in keys]
    ref = refs[0] if len(keys) == 1 else H(env, [b for r in refs for b in r], hb)
    # (a) the hash table class and (b) the `nxpcrypto rot` class
    t = RK.RKHTv21.from_keys(keys)
    env.prove(env.bytes_eq(t.rkth(), ref), "ecc.rkht_v21_equals_documented_construction")
    for i, r in enumerate(refs):
        env.prove(env.bytes_eq(t.rkh_list[i], r), "ecc.per_key_hash_is_hash_of_fixed_width_x_y")
    env.prove(env.bytes_eq(ROT.RotCertBlockv21(keys).calculate_hash(), ref), "ecc.rot_tool_equals_documented_construction")
    if curve == "secp521r1":
        return
    # (c) certificate block v2.1 for every used-root index, keys as objects and as raw bytes
    raw = [bytes(k.export()) if not env.symbolic else k.export() for k in keys]
    for u in range(len(keys)):
        for form, ks in (("objects", keys), ("raw_bytes", raw)):
            cb = CB.CertBlockV21(root_certs=ks, ca_flag=True, used_root_cert=u)
            cb.calculate()
            env.prove(env.bytes_eq(cb.rkth, ref), "ecc.certblock_v21_rkth_independent_of_signer_and_key_container")
            data = cb.export()
            back = CB.CertBlockV21.parse(data)
            env.prove(env.bytes_eq(back.rkth, ref), "ecc.parsed_certblock_reports_same_rkth")
            env.prove_eq(back.export(), data, "ecc.certblock_v21_export_parse_export_identity")
            env.prove(back.root_key_record.used_root_cert == u, "ecc.parsed_used_root_index")
            env.prove(back.root_key_record.number_of_certificates == len(keys), "ecc.parsed_root_count")
            env.prove(env.bytes_eq(back.root_key_record.root_public_key, be(env, keys[u].x, n) + be(env, keys[u].y, n)),
                      "ecc.root_public_key_is_selected_key")


def h_isk(env, c):
    curve, n, hb = c["curve"], CS[c["curve"]], HB[c["curve"]]
    keys = _ecc_keys(env, c)
    u = c["used"]
    cons = env.int("constraints", 0, 0xFFFFFFFF)
    user = env.bytes("user_data", c["udata"]) if c["udata"] else None
    if env.symbolic:
        from symx import keystubs, stubs
        cls = keystubs.classes()
        isk = cls["StubEcc"](env.int("ix", 0, (1 << (8 * n)) - 1), env.int("iy", 0, (1 << (8 * n)) - 1), curve)
        sp = cls["StubSP"](keys[u].ident(), 2 * n)
    else:
        from spsdk.crypto.keys import PublicKeyEcc, PrivateKeyEcc, EccCurve
        from spsdk.crypto.signature_provider import PlainFileSP
        env.int("ix", 0, (1 << (8 * n)) - 1)
        env.int("iy", 0, (1 << (8 * n)) - 1)
        isk = PrivateKeyEcc.generate_key(EccCurve(curve)).get_public_key()

        class SP:
            signature_length = 2 * n
            calls = []

            def get_signature(self, data):
                self.calls.append(bytes(data))
                return bytes(2 * n - 1) + b"\x01"
        sp = SP()
    cb = CB.CertBlockV21(root_certs=keys, ca_flag=False, used_root_cert=u, constraints=cons, signature_provider=sp,
                         isk_cert=isk, user_data=user)
    cb.calculate()
    data = list(cb.export())
    env.prove(len(sp.calls) == 1, "isk.signed_once")
    # signature argument = root key record || isk header || isk public key || user data = the exported bytes between
    # the 12-byte block header and the signature
    sig_at = len(data) - 2 * n
    env.prove(env.bytes_eq(sp.calls[0], data[12:sig_at]), "isk.signature_covers_root_key_record_header_key_user_data")
    isk_pub = be(env, isk.x, n) + be(env, isk.y, n)
    ud = c["udata"]
    env.prove(env.bytes_eq(data[sig_at - ud - 2 * n: sig_at - ud], isk_pub), "isk.public_key_placed_before_user_data")
    if ud:
        env.prove(env.bytes_eq(data[sig_at - ud: sig_at], user), "isk.user_data_placed_before_signature")
    env.prove(env.from_bytes(data[8:12], "little") == len(data), "isk.certblock_size_field")
    back = CB.CertBlockV21.parse(bytes(data) if not env.symbolic else cb.export())
    env.prove_eq(back.export(), cb.export(), "isk.certblock_export_parse_export_identity")
    env.prove(back.isk_certificate.constraints == cons, "isk.parsed_constraints")
    env.prove(env.bytes_eq(back.isk_certificate.user_data, user if ud else b""), "isk.parsed_user_data")
    env.prove(env.bytes_eq(back.isk_certificate.signature, data[sig_at:]), "isk.parsed_signature")
    env.prove(env.bytes_eq(back.isk_certificate.isk_public_key_data, isk_pub), "isk.parsed_isk_public_key")


def _rsa_keys(env, c):
    bits = c["bits"]
    if env.symbolic:
        from symx import keystubs
        cls = keystubs.classes()["StubRsa"]
        return [cls(env.int(f"n{i}", 1 << (bits - 1), (1 << bits) - 1), 65537, bits) for i in range(c["n"])]
    from spsdk.crypto.keys import PublicKeyRsa
    from cryptography.hazmat.primitives.asymmetric import rsa
    keys = []
    for i in range(c["n"]):
        nval = env.int(f"n{i}", 1 << (bits - 1), (1 << bits) - 1) | 1
        keys.append(PublicKeyRsa(rsa.RSAPublicNumbers(65537, nval).public_key()))
    return keys


def h_rsa(env, c):
    bits = c["bits"]
    keys = _rsa_keys(env, c)
    refs = [H(env, be(env, k.n, bits // 8) + [1, 0, 1], 256) for k in keys]
    table = [b for r in refs for b in r] + [0] * (32 * (4 - len(refs)))
    ref = H(env, table, 256)
    t = RK.RKHTv1.from_keys(keys)
    env.prove(env.bytes_eq(t.export(), table), "rsa.rkht_v1_table_is_4x32_zero_padded_hashes_of_n_e")
    env.prove(env.bytes_eq(t.rkth(), ref), "rsa.rkth_is_sha256_of_table")
    env.prove(env.bytes_eq(ROT.RotCertBlockv1(keys).calculate_hash(), ref), "rsa.rot_tool_equals_documented_construction")
    back = RK.RKHTv1.parse(t.export())
    env.prove(env.bytes_eq(back.rkth(), ref), "rsa.parsed_table_same_rkth")
    # certificate block v1: every signer position (stub certificates carrying these keys; concretely the
    # repository's self-signed RSA-2048 test certificate placed at the signer position)
    if env.symbolic:
        from symx import keystubs
        # looking the signer up BY HASH needs distinct table entries: assume SHA-256 does not collide on these keys
        for i in range(len(refs)):
            for j in range(i + 1, len(refs)):
                env.assume(env.Not(env.bytes_eq(refs[i], refs[j])))
    for u in range(len(keys)):
        build = env.int("build", 0, 0xFFFFFFFF) if u == 0 else 7
        cb = CB.CertBlockV1(build_number=build)
        if env.symbolic:
            certs = [keystubs.StubKeyCertificate.make_rsa(k, opaque=bytes([i])) for i, k in enumerate(keys)]
            for i, cert in enumerate(certs):
                cb.set_root_key_hash(i, cert)
            cb.add_certificate(certs[u])
            uref = ref
        else:
            from spsdk.crypto.certificate import Certificate
            real = Certificate.load("/repo/tests/sbfile/data/sb2_x/selfsign_2048_v3.der.crt")
            pk = real.get_public_key()
            rh = H(env, list(pk.n.to_bytes(256, "big")) + [1, 0, 1], 256)
            cb.set_root_key_hash(u, real)
            cb.add_certificate(real)
            uref = H(env, [0] * (32 * u) + rh + [0] * (32 * (3 - u)), 256)
        env.prove(env.bytes_eq(cb.rkth, uref), "rsa.certblock_v1_rkth_independent_of_signer")
        env.prove(cb.rkh_index == u, "rsa.certblock_v1_finds_signer_in_table")
        fuses = cb.rkth_fuses
        env.prove(len(fuses) == 8 and env.And(*[fuses[j] == env.from_bytes(uref[4 * j: 4 * j + 4], "little") for j in range(8)]),
                  "rsa.fuse_words_are_le32_of_rkth")
        cb.image_length = env.int("image_length", 1, 0xFFFFFFFF) if u == 0 else 0x100
        data = cb.export()
        back = CB.CertBlockV1.parse(data)
        env.prove(env.bytes_eq(back.rkth, uref), "rsa.parsed_certblock_v1_same_rkth")
        env.prove(back.rkh_index == u, "rsa.parsed_certblock_v1_same_signer_index")
        env.prove(back.header.build_number == build, "rsa.parsed_build_number")
        env.prove_eq(back.export(), data, "rsa.certblock_v1_export_parse_export_identity")


def _db_rot_type(family, revision):
    from spsdk.utils.database import DatabaseManager, get_db
    return get_db(family, revision).get_str(DatabaseManager.CERT_BLOCK, "rot_type")


def h_rotsel(env, c):
    """`nxpcrypto rot` / Rot(family, revision, keys): the construction is the one the database names for THAT revision."""
    fam, rev = c["family"], c["revision"]
    want = _db_rot_type(fam, rev)
    by_type = {"cert_block_1": ROT.RotCertBlockv1, "cert_block_21": ROT.RotCertBlockv21, "srk_table_ahab": ROT.RotSrkTableAhab,
               "srk_table_ahab_v2": ROT.RotSrkTableAhabV2, "srk_table_hab": ROT.RotSrkTableHab}
    if want not in by_type:
        # a RoT type without an `nxpcrypto rot` implementation (cert_block_x): refused, never answered with another type's hash
        try:
            ROT.Rot.get_rot_class(fam, rev)
            refused = False
        except EX.SPSDKError:
            refused = True
        env.prove(refused, "rotsel.type_without_implementation_is_refused")
        return
    env.prove(ROT.Rot.get_rot_class(fam, rev).rot_type == want, "rotsel.class_is_the_database_type_of_the_revision")
    if want == "cert_block_1":
        keys = _rsa_keys(env, {"bits": 2048, "n": 2})
    elif want == "cert_block_21":
        keys = _ecc_keys(env, {"curve": "secp256r1", "n": 2})
    else:
        env.cover("rotsel.srk_table_type_checked_by_class_only")
        return
    rot = ROT.Rot(fam, rev, keys_or_certs=keys)
    env.prove(type(rot.rot_obj) is by_type[want], "rotsel.object_is_of_that_class")
    env.prove(env.bytes_eq(rot.calculate_hash(), by_type[want](keys).calculate_hash()),
              "rotsel.hash_is_the_construction_of_that_type")


def cases(tier):
    q = tier == "quick"
    cs = []
    from spsdk.utils.database import DatabaseManager
    seen = set()
    for fam in sorted(ROT.Rot.get_supported_families()):
        revs = DatabaseManager().db.devices.get(fam).revisions.revision_names(True)
        sig = tuple(_db_rot_type(fam, r) for r in revs)
        if q and (len(set(sig)) == 1 and (sig[0], len(sig) > 1) in seen):
            continue       # quick: one family per RoT type; every family whose revisions differ in type
        seen.add((sig[0], len(sig) > 1))
        for r in revs:
            cs.append({"id": f"rotsel/{fam}/{r}", "h": "rotsel", "family": fam, "revision": r})
    for curve in ("secp256r1", "secp384r1") + (() if q else ("secp521r1",)):
        for n in (1, 2, 3, 4):
            cs.append({"id": f"ecc/{curve}/n={n}", "h": "ecc", "curve": curve, "n": n, "weight": n * 3})
    for curve, n, u, ud in (("secp256r1", 1, 0, 0), ("secp256r1", 2, 1, 4), ("secp384r1", 4, 3, 16), ("secp384r1", 1, 0, 16),
                            ("secp256r1", 3, 0, 16)) + (() if q else tuple(("secp256r1", 2, 0, k) for k in range(8, 68, 4))):
        cs.append({"id": f"isk/{curve}/n={n}/used={u}/udata={ud}", "h": "isk", "curve": curve, "n": n, "used": u, "udata": ud,
                   "weight": 4})
    for bits in (2048,) + (() if q else (3072, 4096)):
        for n in (1, 2, 3, 4):
            cs.append({"id": f"rsa/{bits}/n={n}", "h": "rsa", "bits": bits, "n": n, "weight": n * 4})
    return cs


def run(env, case):
    globals()["h_" + case["h"]](env, case)

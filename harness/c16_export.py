"""C16 - BinaryImage.export: bytes at absolute offsets, fill pattern elsewhere, alignment only appends."""
PROPERTY = "C16"
NAME = "c16_export"
LOGIC = "bv"
ENCODES = ["spsdk.utils.images.BinaryImage.export", "spsdk.utils.images.BinaryImage.__len__",
           "spsdk.utils.images.BinaryImage.validate", "spsdk.utils.images.BinaryImage.join_images",
           "spsdk.utils.misc.align_block", "spsdk.utils.misc.BinaryPattern.get_block"]
BOUNDS = {
    "quick": "root (explicit size 0..10 symbolic, alignment in {1,4}, pattern in {none, zeros, ones, 0xA55A}, optional own "
             "binary of 0..2 symbolic bytes) with 1 child (binary of 1..3 symbolic bytes, offset symbolic 0..7) or 2 children (1..2 bytes, offsets 0..5, root size 0..8), "
             "optionally one grandchild (1..2 symbolic bytes, offset 0..2 inside a child of explicit size 0..4); only "
             "layouts accepted by validate()",
    "thorough": "as quick with up to 3 children (1 child: offsets 0..12, root size 0..16, 1..3 bytes; 2 children: 0..8 / 0..11 / 1..3; 3 children: 0..5 / 0..8 / 1..2), alignments {1,4,8}",
}
OUTSIDE = "layouts rejected by validate(); explicit size smaller than the image's own binary (export then returns more bytes than len() - precondition); 'rand' and 'inc' patterns; images above the stated sizes"
STUBS = ["BinaryImage.__str__ -> constant"]
MUST_REACH = ["export\\..*", "join\\..*"]
OPTS = {"quick": {"case_timeout_s": 600, "max_paths": 60000}, "thorough": {"case_timeout_s": 2400, "max_paths": 400000}}

PATTERNS = {"none": None, "zeros": "zeros", "ones": "ones", "num": "0xA55A"}


def setup(symbolic):
    global IM, EX, M
    import spsdk.utils.images as IM
    import spsdk.exceptions as EX
    import spsdk.utils.misc as M
    if symbolic:
        IM.BinaryImage.__str__ = lambda self: "<image>"


def cases(tier):
    q = tier == "quick"
    cs = []
    for pat in PATTERNS:
        for al in ((1, 4) if q else (1, 4, 8)):
            for kids in ((1, 2) if q else (1, 2, 3)):
                for gc in (False, True):
                    if gc and kids > (1 if q else 2):
                        continue
                    for ownbin in (0, 2):
                        if ownbin and (gc or kids > 1):
                            continue
                        cs.append({"id": f"export/pat={pat}/al={al}/kids={kids}/gc={int(gc)}/own={ownbin}", "h": "export",
                                   "pat": pat, "al": al, "kids": kids, "gc": gc, "own": ownbin,
                                   "maxoff": (7 if kids == 1 else 5) if q else {1: 12, 2: 8, 3: 5}[kids],
                                   "maxsize": (10 if kids == 1 else 8) if q else {1: 16, 2: 11, 3: 8}[kids],
                                   "maxlen": (3 if kids == 1 else 2) if q else {1: 3, 2: 3, 3: 2}[kids], "weight": kids * 3 + gc})
    return cs


def _fill(pat, i):
    if pat in ("none", "zeros"):
        return 0
    if pat == "ones":
        return 0xFF
    return (0xA5, 0x5A)[i % 2]


def h_export(env, c):
    pat = c["pat"]
    pattern = M.BinaryPattern(PATTERNS[pat]) if PATTERNS[pat] else None
    rsize = env.int("root_size", 0, c["maxsize"])
    own = env.bytes("own", c["own"]) if c["own"] else None
    if own is not None:
        env.assume(env.Or(rsize == 0, rsize >= len(own)))  # documented precondition: explicit size covers own binary
    root = IM.BinaryImage("root", size=rsize, alignment=c["al"], pattern=pattern, binary=own)
    placed = []  # (absolute offset (symbolic), bytes)
    for k in range(c["kids"]):
        off = env.int(f"off{k}", 0, c["maxoff"])
        if c["gc"] and k == 0:
            csize = env.int("child_size", 0, 4)
            ch = IM.BinaryImage("c0", size=csize, offset=off, pattern=pattern)
            goff = env.int("goff", 0, 2)
            gn = 1 + env.choice("glen", 2)
            gdata = env.bytes("g", gn)
            ch.add_image(IM.BinaryImage("g", offset=goff, binary=gdata))
            placed.append((off + goff, gdata, ch))
        else:
            n = 1 + env.choice(f"len{k}", c["maxlen"])
            data = env.bytes(f"d{k}", n)
            ch = IM.BinaryImage(f"c{k}", offset=off, binary=data)
            placed.append((off, data, None))
        root.add_image(ch)
    try:
        root.validate()
    except (EX.SPSDKValueError, EX.SPSDKOverlapError):
        env.cover("rejected_by_validate")
        return
    ln = env.len(root)
    out = root.export()
    env.prove(len(out) == ln, "export.length_is_len")
    n = len(out)
    env.prove(n % c["al"] == 0, "export.aligned")
    # expected content: placed blobs at their absolute offsets, own binary at the front, fill elsewhere
    exp = [None] * n
    for aoff, data, _ in placed:
        aoff = aoff.__index__() if env.symbolic and not isinstance(aoff, int) else aoff
        for i in range(len(data)):
            exp[aoff + i] = data[i]
    conds = [out[i] == exp[i] for i in range(n) if exp[i] is not None]
    env.prove(env.And(*conds), "export.sub_image_bytes_at_absolute_offset")
    if own is not None:
        conds = [out[i] == own[i] for i in range(min(len(own), n)) if exp[i] is None]
        for i in range(min(len(own), n)):
            if exp[i] is None:
                exp[i] = own[i]
        env.prove(env.And(*conds), "export.own_binary_at_front")
    conds = []
    for i in range(n):
        if exp[i] is None:
            if pat == "num":
                # the 2-byte number pattern restarts in every (sub)image; accept either phase
                conds.append(env.Or(out[i] == 0xA5, out[i] == 0x5A))
            else:
                conds.append(out[i] == _fill(pat, i))
    env.prove(env.And(*conds), "export.fill_is_pattern")
    # joining is the identity on the exported bytes
    root.join_images()
    env.prove_eq(root.export(), out, "join.export_unchanged")
    env.prove(env.len(root) == n, "join.length_unchanged")
    env.observe("out", out)


def run(env, case):
    globals()["h_" + case["h"]](env, case)

"""C02 - Master Boot Image: the exported image passes an independent model of the ROM acceptance checks
(CRC word, signed range, HMAC, manifest, encryption) - ranges, lengths and placements; real crypto is stubbed."""
from harness import mbi_common as B
from harness.mbi_common import setup as _setup, u32, pad4, IVT_WORDS
from harness import c01_mbi as C1

PROPERTY = "C02"
NAME = "c02_mbi"
LOGIC = "bv"
ENCODES = B.ENCODES
BOUNDS = C1.BOUNDS
OUTSIDE = ("that RSA/ECDSA signatures verify and the certificate chain verifies to a root in the table (real cryptography "
           "behaviour; chains are stub certificates); RSA-3072/4096 DER certificate sizes; BCA/FCF/Vx classes; payloads "
           "shorter than 64 bytes for HMAC classes; custom TrustZone in CRC-manifest classes")
STUBS = B.STUBS
MUST_REACH = ["c02\\.crc.*", "c02\\.signed.*", "c02\\.hmac.*", "c02\\.manifest.*", "c02\\.encrypted.*", "c02\\.coverage.*"]
OPTS = {"quick": {"case_timeout_s": 450}, "thorough": {"case_timeout_s": 2400}}


def setup(symbolic):
    _setup(symbolic)


def cases(tier):
    cs = []
    for c in C1.cases(tier):
        fam, key = c["family"], c["key"]
        cls = B.MBI.get_mbi_classes(fam, c.get("revision", "latest"))[key][0]
        if cls.IMAGE_TYPE[0] == 0:
            continue      # plain images carry nothing to check
        cs.append(dict(c, h="rom"))
    return cs


def H(env, data, bits):
    if env.symbolic:
        from symx import stubs
        return stubs.uf(f"H-sha{bits}", [list(data)], bits // 8)
    import hashlib
    return list(hashlib.new(f"sha{bits}", bytes(data)).digest())


def h_rom(env, c):
    x = B.build(env, c)
    n = x.names
    if env.symbolic:
        from symx import stubs
    b = list(x.obj.export())
    N = len(b)
    covered = [False] * N
    ks_len = len(x.ks_data) if getattr(x, "ks_data", None) is not None else 0
    has_hmac = any(m in n for m in ("Hmac", "HmacMandatory"))
    # ---- CRC images ----------------------------------------------------------------------------------------
    if "ExportCrcSign" in n:
        ref = B.ref_crc_mpeg2(env, b[:0x28] + b[0x2C:])
        env.prove(u32(env, b, 0x28) == ref, "c02.crc_word_is_crc32_mpeg2_of_image_without_the_word")
        for i in range(N):
            covered[i] = True
        env.prove(all(covered), "c02.coverage_every_byte_under_crc")
        return
    # ---- signed images -----------------------------------------------------------------------------------------
    inner = b
    if has_hmac:
        # HMAC + key store are inserted at offset 64 after signing (ROM convention for these families)
        env.prove(len(b) >= 96 + ks_len, "c02.hmac_area_inside_image")
        hm = b[64:96]
        if env.symbolic:
            dkey = stubs.enc("AES-ECB", list(x.hmac_key), [], [0] * 16)
            # derive_hmac_key = AES-ECB(user key, 16 zero bytes); HMAC over the first 64 bytes of the final image
            env.prove(env.bytes_eq(hm, stubs.uf("HMAC-sha256", [dkey, b[:64]], 32)), "c02.hmac_over_first_64_bytes_with_derived_key")
        else:
            import hashlib
            import hmac as hm_
            from cryptography.hazmat.primitives.ciphers import Cipher, algorithms, modes
            e = Cipher(algorithms.AES(bytes(x.hmac_key)), modes.ECB()).encryptor()
            dkey = e.update(bytes(16)) + e.finalize()
            env.prove(bytes(hm) == hm_.new(dkey, bytes(b[:64]), hashlib.sha256).digest(), "c02.hmac_over_first_64_bytes_with_derived_key")
        if ks_len:
            env.prove(env.bytes_eq(b[96:96 + ks_len], x.ks_data), "c02.hmac_key_store_directly_after_hmac")
        inner = b[:64] + b[96 + ks_len:]
        for i in range(64, 96 + ks_len):
            covered[i] = True     # MAC field itself / key store (wrapped keys, not authenticated by design)
    hlen = 0
    if "ManifestDigest" in n and x.digest:
        hlen = x.digest // 8
    sig_at = len(inner) - x.sig_len - hlen
    signed = inner[:sig_at]
    env.prove(len(x.sp.calls) >= 1, "c02.signed_signature_made")
    env.prove(env.bytes_eq(x.sp.calls[-1], signed), "c02.signed_bytes_are_exactly_what_precedes_the_signature")
    if env.symbolic:
        env.prove(env.bytes_eq(inner[sig_at: sig_at + x.sig_len], stubs.uf("SIGN", [x.sp.ident, signed], x.sig_len)),
                  "c02.signed_signature_placed_right_after_signed_bytes")
    else:
        env.prove(True, "c02.signed_signature_placed_right_after_signed_bytes")
    total = u32(env, b, 0x20)
    env.prove(total == N, "c02.signed_ivt_total_length_is_file_length")
    cert_off = u32(env, inner, 0x28)
    cert_off = cert_off if isinstance(cert_off, int) else cert_off.__index__()
    if "CertBlockV1" in n:
        env.prove(env.bytes_eq(inner[cert_off: cert_off + 4], b"cert"), "c02.signed_cert_block_at_offset")
        img_len = u32(env, inner, cert_off + 20)
        env.prove(img_len == len(signed), "c02.signed_cert_block_image_length_is_signed_length")
    else:
        env.prove(env.bytes_eq(inner[cert_off: cert_off + 4], b"chdr"), "c02.signed_cert_block_at_offset")
        cb_len = u32(env, inner, cert_off + 8)
        cb_len = cb_len if isinstance(cb_len, int) else cb_len.__index__()
        # the selected root key is carried in the block and its hash is the table entry at the used index
        nroots, used = c.get("roots", 1), c.get("used", 0)
        hb = x.hbits
        h = hb // 8
        o = cert_off + 16
        table = []
        if nroots > 1:
            for i in range(nroots):
                table.append(inner[o: o + h])
                o += h
        root_pub = inner[o: o + 2 * h]
        if table:
            env.prove(env.bytes_eq(table[used], H(env, root_pub, hb)), "c02.signed_root_key_hash_is_in_embedded_table")
        man = cert_off + cb_len
        # manifest directly after the certificate block
        env.prove(env.bytes_eq(inner[man: man + 4], b"imgm"), "c02.manifest_magic_after_cert_block")
        env.prove(u32(env, inner, man + 4) == 0x00010000, "c02.manifest_format_version")
        env.prove(u32(env, inner, man + 8) == x.fwver, "c02.manifest_firmware_version")
        mlen = u32(env, inner, man + 12)
        mflags = u32(env, inner, man + 16)
        tz_len = len(x.tz_raw) if x.tz_kind == "custom" else 0
        if "ManifestCrc" in n:
            env.prove(mlen == 20 + tz_len + 4, "c02.manifest_total_length")
            env.prove(mflags == 0, "c02.manifest_flags")
            crc_at = man + 20 + tz_len
            env.prove(u32(env, inner, crc_at) == B.ref_crc_mpeg2(env, inner[:crc_at]), "c02.manifest_crc_over_everything_before_it")
            env.prove(crc_at + 4 == sig_at, "c02.manifest_ends_where_signature_starts")
        else:
            env.prove(mlen == 20 + tz_len, "c02.manifest_total_length")
            exp_flags = (0x80000000 + {256: 1, 384: 2}[x.digest]) if x.digest else 0
            env.prove(mflags == exp_flags, "c02.manifest_flags")
            env.prove(man + 20 + tz_len == sig_at, "c02.manifest_ends_where_signature_starts")
            if x.digest:
                dig = inner[sig_at + x.sig_len:]
                env.prove(env.bytes_eq(dig, H(env, signed, x.digest)), "c02.manifest_digest_is_hash_of_signed_bytes")
        if tz_len:
            env.prove(env.bytes_eq(inner[man + 20: man + 20 + tz_len], x.tz_raw), "c02.manifest_trustzone_presets")
    # ---- encrypted images: a decryptor that only knows the format recovers the plaintext image -----------------------
    if "CtrInitVector" in n:
        cb_size = len(x.cb.export())
        copy_at = cert_off + cb_size
        iv = inner[copy_at + 56: copy_at + 72]
        env.prove(env.bytes_eq(iv, x.iv), "c02.encrypted_iv_stored_after_ivt_copy")
        enc_img = inner[copy_at: copy_at + 56] + inner[56:cert_off] + inner[copy_at + 72: sig_at]
        if env.symbolic:
            key = list(x.hmac_key)
            if x.keystore is None or x.keystore.key_source == B.KS.KeySourceType.OTP:
                key = stubs.enc("AES-ECB", key, [], [1] + [0] * 15) + stubs.enc("AES-ECB", key, [], [2] + [0] * 15)
            ctr = env.from_bytes(iv, "big")
            ks = stubs.ctr_keystream("AES-KS", key, ctr, len(enc_img))
            pt = [a ^ k for a, k in zip(enc_img, ks)]
        else:
            from cryptography.hazmat.primitives.ciphers import Cipher, algorithms, modes
            key = bytes(x.hmac_key)
            if x.keystore is None or x.keystore.key_source == B.KS.KeySourceType.OTP:
                e = Cipher(algorithms.AES(key), modes.ECB()).encryptor()
                key = e.update(bytes([1] + [0] * 15 + [2] + [0] * 15)) + e.finalize()
            d = Cipher(algorithms.AES(key), modes.CTR(bytes(iv))).decryptor()
            pt = list(d.update(bytes(enc_img)) + d.finalize())
        app = pad4(x.payload)
        env.prove(env.And(*[pt[i] == app[i] for i in range(len(app)) if i not in IVT_WORDS]), "c02.encrypted_decrypts_to_application")
        env.prove(env.And(*[pt[i] == b[i] for i in sorted(IVT_WORDS)]), "c02.encrypted_inner_ivt_words_equal_outer_ones")
        if x.tz_kind == "custom":
            env.prove(env.bytes_eq(pt[len(pt) - len(x.tz_raw):], x.tz_raw), "c02.encrypted_trustzone_decrypts")
    # ---- coverage: every byte is in the signed range, or is the signature / MAC / key store / digest field ------------
    shift = (32 + ks_len) if has_hmac else 0
    for i in range(sig_at):
        covered[i if i < 64 else i + shift] = True
    for i in range(sig_at, len(inner)):
        covered[i + shift] = True
    env.prove(all(covered), "c02.coverage_every_byte_signed_or_a_signature_mac_field")


def run(env, case):
    globals()["h_" + case["h"]](env, case)

"""C12 - register-backed configuration areas (PFR CMPA/CFPA/ROMCFG/CMAC table, BCA, FCF, FCB, XMCD): with EVERY register
of the area holding an arbitrary in-range (symbolic) value, export has the fixed size, parse(export) re-exports the same
bytes, converting to a configuration and loading it back re-exports the same bytes, and the computed fields (inverse
half-words / bytes, XMCD block size) hold in the exported binary."""
PROPERTY = "C12"
NAME = "c12_cfgareas"
LOGIC = "bv"
ENCODES = [
    "spsdk.pfr.pfr.BaseConfigArea.__init__", "spsdk.pfr.pfr.BaseConfigArea._load_registers", "spsdk.pfr.pfr.BaseConfigArea.export",
    "spsdk.pfr.pfr.BaseConfigArea.parse", "spsdk.pfr.pfr.BaseConfigArea.set_config", "spsdk.pfr.pfr.BaseConfigArea.get_config",
    "spsdk.pfr.pfr.BaseConfigArea.load_from_config", "spsdk.pfr.pfr.BaseConfigArea.compute_register",
    "spsdk.pfr.pfr.BaseConfigArea.pfr_reg_inverse_high_half", "spsdk.pfr.pfr.BaseConfigArea.pfr_reg_inverse_lower_8_bits",
    "spsdk.image.segments_base.SegmentBase.export", "spsdk.image.bca.bca.BCA.parse", "spsdk.image.fcf.fcf.FCF.parse",
    "spsdk.image.fcb.fcb.FCB.parse", "spsdk.image.xmcd.xmcd.XMCD.parse", "spsdk.image.xmcd.xmcd.XMCD.registers",
    "spsdk.image.xmcd.xmcd.XMCD.load_from_config", "spsdk.image.xmcd.xmcd.XMCDHeader.*", "spsdk.image.xmcd.xmcd.XMCDConfigBlock.*",
    "spsdk.utils.registers._RegistersBase.parse", "spsdk.utils.registers._RegistersBase.image_info",
    "spsdk.utils.registers._RegistersBase.get_config", "spsdk.utils.registers._RegistersBase.load_yml_config",
    "spsdk.utils.images.BinaryImage.export",
]
BOUNDS = {
    "quick": "one (family, revision) per distinct register layout of every PFR area class (30 layouts over ~250 family x "
             "revision pairs), BCA / FCF per family layout, FCB per (family, memory type) layout, XMCD per (family, memory "
             "type, block type) layout; binary round trip: ALL registers symbolic over their full width at once; "
             "configuration round trip and computed fields: one symbolic register per case (registers with computed fields, "
             "the first, the last, every 7th, every group register such as ROTKH - stored as bare hexadecimal digits); group "
             "registers up to 512 bits",
    "thorough": "every family x revision (no layout deduplication), configuration round trip for every register",
}
OUTSIDE = ("template text: that the generated YAML template is valid YAML and satisfies the JSON schema (ruamel / jsonschema "
           "string processing - not encodable; the schema clause of C12 is NOT decided); ROTKH from real keys and the seal "
           "markers with real certificates (C03); fuse maps, memory-configuration option words and TrustZone presets "
           "(TrustZone bytes are covered inside C01/C02); CRC/hash fuse scripts")
STUBS = ["Register.get_hex_value / RegsBitField.get_hex_value -> HexNum(str) carrying the integer and whether it is the "
         "0x-prefixed or the bare rendering; int(x,16) gives the integer back, value_to_int of a bare rendering follows the "
         "summary proved against the real value_to_int in C11 (hexsummary/*)",
         "get_bytes_cnt_of_int -> verified loop-free summary (proved in C11)", "check_config (JSON schema validation) -> no-op "
         "in the symbolic run", "RegsBitField.get_enum_value of a symbolic value -> number (enum names: C11)"]
MUST_REACH = ["bin\\..*", "cfg\\..*", "computed\\..*", "xmcd\\..*", "rotkh\\..*"]
OPTS = {"quick": {"case_timeout_s": 400, "max_paths": 3000}, "thorough": {"case_timeout_s": 2400, "max_paths": 30000}}


def setup(symbolic):
    global PFR, BCA, FCF, FCB, XM, MT, R, M, EX, DBM, SYM, HexNum
    SYM = symbolic
    import spsdk.exceptions as EX
    import spsdk.utils.registers as R
    import spsdk.utils.misc as M
    import spsdk.pfr.pfr as PFR
    import spsdk.image.mem_type as MT
    from spsdk.image.bca.bca import BCA
    from spsdk.image.fcf.fcf import FCF
    from spsdk.image.fcb.fcb import FCB
    import spsdk.image.xmcd.xmcd as XM
    from spsdk.utils.database import DatabaseManager as DBM

    from symx.hexnum import HexNum
    if symbolic:
        from symx import loader, summaries, shims
        real_cnt = M.get_bytes_cnt_of_int
        loader.patch_everywhere(real_cnt, summaries.bytes_cnt_summary(real_cnt, 66))
        from symx import hexnum, stubs
        import spsdk.crypto.hash as HM
        loader.patch_everywhere(HM.get_hash, stubs.get_hash)
        hexnum.install_value_to_int()
        # a config_as_hexstring register is stored as bare hexadecimal digits, every other one with the 0x prefix
        R.Register.get_hex_value = lambda self, raw=False: (lambda v: HexNum(
            v, digits=(self.get_alt_width(v) // 4) if self.config_as_hexstring else None))(self.get_value(raw=raw))
        R.RegsBitField.get_hex_value = lambda self: HexNum(self.get_value())
        # a symbolic bit-field value is rendered as a number, not looked up in the enum table (one fork per enum member
        # and bit-field otherwise; the name <-> value mapping is decided per bit-field in C11)
        real_enum = R.RegsBitField.get_enum_value

        def get_enum_value(self):
            v = self.get_value()
            return real_enum(self) if isinstance(v, int) else HexNum(v)
        R.RegsBitField.get_enum_value = get_enum_value
        XM.check_config = lambda *a, **k: None
        import spsdk.utils.images as IM
        IM.BinaryImage.__str__ = lambda self: "<image>"
        IM.BinaryImage.draw = lambda self, *a, **k: ""


# ------------------------------------------------------------------------------------------------------- area adapters
def layout_sig(regs):
    return tuple((r.name, r.offset, r.width, r.reverse, tuple((b.name, b.offset, b.width, len(b.get_enums())) for b in r.get_bitfields()))
                 for r in regs.get_registers())


def revisions(fam):
    return DBM().db.devices.get(fam).revisions.revision_names(True)


def all_areas():
    """[(kind, key tuple, signature)] for everything the database offers"""
    out = []
    for name, cls in PFR.CONFIG_AREA_CLASSES.items():
        for fam in cls.get_supported_families():
            for rev in revisions(fam):
                try:
                    a = cls(family=fam, revision=rev)
                except EX.SPSDKError:
                    continue
                out.append(("pfr", (name, fam, rev), (name, layout_sig(a.registers), str(sorted(a.computed_fields.items())))))
    for kind, cls in (("bca", BCA), ("fcf", FCF)):
        for fam in cls.get_supported_families():
            a = cls(fam)
            out.append((kind, (fam,), (kind, layout_sig(a.registers))))
    for fam in FCB.get_supported_families():
        for mt in FCB.get_supported_memory_types(fam):
            a = FCB(fam, mt)
            out.append(("fcb", (fam, mt.label), ("fcb", layout_sig(a.registers))))
    for fam in XM.XMCD.get_supported_families():
        for mt in XM.XMCD.get_supported_memory_types(fam):
            for ct in XM.XMCD.get_supported_configuration_types(fam, mt):
                a = XM.XMCD(fam, mt, ct)
                out.append(("xmcd", (fam, mt.label, ct.label), ("xmcd", mt.label, ct.label, layout_sig(a.registers))))
    return out


def make(kind, key):
    if kind == "pfr":
        return PFR.CONFIG_AREA_CLASSES[key[0]](family=key[1], revision=key[2])
    if kind == "bca":
        return BCA(key[0])
    if kind == "fcf":
        return FCF(key[0])
    if kind == "fcb":
        return FCB(key[0], MT.MemoryType.from_label(key[1]))
    return XM.XMCD(key[0], MT.MemoryType.from_label(key[1]), XM.ConfigurationBlockType.from_label(key[2]))


def reg_sets(kind, area):
    """the Registers objects that hold the area's state (XMCD: header + block)"""
    if kind == "xmcd":
        return [area.header.registers, area.config_block.registers]
    return [area.registers]


def export(kind, area):
    if kind == "pfr":
        return area.export(draw=False)
    return area.export()


def parse(kind, key, data):
    if kind == "pfr":
        a = make(kind, key)
        a.parse(data)
        return a
    if kind == "bca":
        return BCA.parse(data, family=key[0])
    if kind == "fcf":
        return FCF.parse(data, family=key[0])
    if kind == "fcb":
        return FCB.parse(data, family=key[0], mem_type=MT.MemoryType.from_label(key[1]))
    return XM.XMCD.parse(data, family=key[0])


FIXED = {"bca": ("TAG",), "fcf": (), "fcb": ("tag",), "xmcd": ("header",)}


def is_fixed(kind, reg):
    """registers whose value identifies the block (tag / header selecting memory and block type) stay at their value"""
    return reg.name in FIXED.get(kind, ()) or reg.name.lower() in ("tag",)


def too_wide(reg):
    """group registers above 512 bits (certificate blobs) stay at their reset value: the byte-count summary is proved up
    to 66 bytes"""
    return reg.has_group_registers() and reg.width > 512


def set_symbolic(env, kind, area, only=None):
    n = 0
    for ri, regs in enumerate(reg_sets(kind, area)):
        for i, reg in enumerate(regs.get_registers()):
            if is_fixed(kind, reg) or too_wide(reg):
                continue
            if only is not None and (ri, i) not in only:
                continue
            v = env.int(f"r{ri}_{i}_{reg.name}"[:60], 0, (1 << reg.width) - 1)
            reg.set_value(v, raw=True)
            n += 1
    return n


# ------------------------------------------------------------------------------------------------------- harnesses
def h_bin(env, c):
    kind, key = c["kind"], tuple(c["key"])
    area = make(kind, key)
    ref_len = len(export(kind, area))
    n = set_symbolic(env, kind, area)
    data = export(kind, area)
    env.prove(len(data) == ref_len, "bin.export_size_independent_of_values")
    if kind == "pfr":
        env.prove(len(data) == area.BINARY_SIZE, "bin.export_has_documented_size")
    # every register's bytes are where the layout says (little endian unless the register is reversed)
    b = list(data)
    for ri, regs in enumerate(reg_sets(kind, area)):
        base = 0 if ri == 0 else area.header.size
        for reg in regs.get_registers():
            if reg.has_group_registers():
                continue
            raw = reg.get_bytes_value(raw=True)
            env.prove(env.bytes_eq(b[base + reg.offset: base + reg.offset + reg.width // 8], raw), "bin.register_bytes_at_its_offset")
    back = parse(kind, key, data)
    again = export(kind, back)
    env.prove_eq(again, data, "bin.parse_export_identity")


def to_cfg_and_back(kind, area):
    if kind == "pfr":
        return PFR.BaseConfigArea.load_from_config(area.get_config())
    if kind == "xmcd":
        return XM.XMCD.load_from_config(xmcd_config(area))
    if kind == "fcb":
        # (FCB has no get_config(): the dictionary create_config() renders)
        cfg = {"family": area.family, "revision": area.revision, "type": area.mem_type.label,
               "fcb_settings": area.registers.get_config()}
        return FCB.load_from_config(cfg)
    return type(area).load_from_config(area.get_config())


def h_cfg(env, c):
    kind, key = c["kind"], tuple(c["key"])
    area = make(kind, key)
    set_symbolic(env, kind, area, only={tuple(c["reg"])})
    data = list(export(kind, area))
    # loading a configuration (re)computes the computed fields of the registers it mentions, so the identity is
    # demanded (a) on every register without computed fields and (b) as a fixed point from the first load on
    a1 = to_cfg_and_back(kind, area)
    d1 = list(export(kind, a1))
    env.prove(len(d1) == len(data), "cfg.config_round_trip_keeps_size")
    computed = set(area.computed_fields) if kind == "pfr" else set()
    for ri, regs in enumerate(reg_sets(kind, area)):
        base = 0 if ri == 0 else area.header.size
        for reg in regs.get_registers():
            if reg.uid in computed or reg.has_group_registers() or (kind == "xmcd" and reg.name == "header"):
                continue
            o, n = base + reg.offset, reg.width // 8
            env.prove(env.bytes_eq(d1[o: o + n], data[o: o + n]), "cfg.config_round_trip_keeps_register_bytes")
    a2 = to_cfg_and_back(kind, a1)
    env.prove_eq(export(kind, a2), export(kind, a1), "cfg.config_round_trip_is_identity_after_first_load")


def xmcd_config(x):
    cfg = {"family": x.family, "revision": x.revision, "mem_type": x.mem_type.label, "config_type": x.config_type.label}
    settings = dict(x.header.registers.get_config())
    settings.update(x.config_block.registers.get_config())
    cfg["xmcd_settings"] = settings
    return cfg


def h_computed(env, c):
    """PFR: a register used in the configuration without its computed bit-field gets the field recomputed"""
    key = tuple(c["key"])
    area = make("pfr", key)
    reg = area.registers.get_reg(c["reg_uid"])
    method = c["method"]
    hidden = [reg.get_bitfield(uid).name for uid in area.computed_fields[c["reg_uid"]]]
    free = [bf for bf in reg.get_bitfields() if bf.name not in hidden]
    settings = {}
    vals = {}
    for bf in free:
        v = env.int(f"bf_{bf.name}"[:60], 0, (1 << bf.width) - 1)
        vals[bf.name] = (bf, v)
        settings[bf.name] = HexNum(v) if env.symbolic else hex(v)
    area.set_config({reg.name: settings})
    v = reg.get_value(raw=True)
    for name, (bf, val) in vals.items():
        env.prove((v >> bf.offset) % (1 << bf.width) == val, "computed.configured_bitfields_kept")
    if method == "pfr_reg_inverse_high_half":
        env.prove((v >> 16) == ((v % 65536) ^ 0xFFFF), "computed.high_half_is_inverse_of_low_half")
    elif method == "pfr_reg_inverse_lower_8_bits":
        env.prove(((v >> 8) % 256) == ((v % 256) ^ 0xFF), "computed.bits_8_15_are_inverse_of_bits_0_7")
    else:
        env.prove(False, "computed.unknown_method")
    data = list(area.export(draw=False))
    env.prove(env.from_bytes(data[reg.offset: reg.offset + 4], "little") == v, "computed.exported_binary_carries_computed_value")


def h_xmcdsize(env, c):
    """XMCD: the header's configurationBlockSize announces the real size after load_from_config, whatever the
    configuration said"""
    key = tuple(c["key"])
    x = make("xmcd", key)
    real = len(x.export())
    env.prove(x.header.xmcd_size == real, "xmcd.default_block_size_is_real_size")
    hdr = x.header.registers.find_reg("header")
    bf = hdr.find_bitfield("configurationBlockSize")
    announced = env.int("announced_size", 0, (1 << bf.width) - 1)
    bf.set_value(announced)
    set_symbolic(env, "xmcd", x, only={(1, 0)})
    cfg = xmcd_config(x)
    back = XM.XMCD.load_from_config(cfg)
    out = back.export()
    env.prove(back.header.xmcd_size == len(out), "xmcd.loaded_block_size_is_real_size")
    env.prove(not back.verify().has_errors, "xmcd.loaded_block_verifies")


def h_rotkh(env, c):
    """PFR export with root keys: the ROTKH field of the exported page is the RoT hash of exactly these keys, zero padded to
    the field, whatever the field held before (a 256-bit hash in a 384-bit field leaves no old bytes behind)."""
    from harness import c03_rot
    key = tuple(c["key"])
    area = make("pfr", key)
    regs = area.registers.get_registers()
    idx = [i for i, r in enumerate(regs) if r.name == area.ROTKH_REGISTER][0]
    set_symbolic(env, "pfr", area, only={(0, idx)})            # earlier content of the field: arbitrary
    reg = regs[idx]
    cls = area.get_cert_block_class(family=area.family)
    if cls.__name__ == "RKHTv1":
        keys = c03_rot._rsa_keys(env, {"bits": 2048, "n": c["n"]})
    else:
        keys = c03_rot._ecc_keys(env, {"curve": c["curve"], "n": c["n"]})
    rkth = list(cls.from_keys(keys=keys).rkth())
    w = reg.width // 8
    # a field value that begins with 128 zero bits would be taken for a value of the narrower alternative width of the
    # register; for a hash that has probability 2^-128 - assumed away (the hash is an uninterpreted function here)
    env.assume(env.Or(*[x != 0 for x in rkth[:16]]))
    data = list(area.export(keys=keys, draw=False))
    env.prove(len(rkth) <= w, "rotkh.hash_fits_field")
    field = data[reg.offset: reg.offset + w]
    env.prove(env.bytes_eq(field[:len(rkth)], rkth), "rotkh.field_starts_with_the_rot_hash_of_the_keys")
    env.prove(env.And(*[x == 0 for x in field[len(rkth):]]) if len(rkth) < w else True, "rotkh.rest_of_field_is_zero")
    # and the page parses back to the same field
    back = parse("pfr", key, bytes(data) if not env.symbolic else area.export(keys=keys, draw=False))
    env.prove(env.bytes_eq(list(export("pfr", back))[reg.offset: reg.offset + w], field), "rotkh.parse_keeps_field")


def cases(tier):
    q = tier == "quick"
    cs = []
    seen = {}
    seen_rotkh = set()
    for kind, key, sig in all_areas():
        if kind != "pfr":
            continue
        area = make(kind, key)
        try:
            reg = area.registers.find_reg(area.ROTKH_REGISTER)
        except Exception:
            continue
        cname = area.get_cert_block_class(family=area.family).__name__
        k = (reg.width, cname, tuple(reg.alt_widths or ()))
        if q and k in seen_rotkh:
            continue
        seen_rotkh.add(k)
        for curve, n in ((("secp256r1", 2), ("secp384r1", 1)) if cname != "RKHTv1" else (("rsa", 2),)):
            if curve == "secp384r1" and reg.width < 384:
                continue
            cs.append({"id": f"rotkh/{'/'.join(key)}/{curve}/n={n}", "h": "rotkh", "key": list(key), "curve": curve, "n": n, "weight": 3})
    for kind, key, sig in all_areas():
        if q and sig in seen:
            continue
        seen[sig] = key
        tag = "/".join(key)
        cs.append({"id": f"bin/{kind}/{tag}", "h": "bin", "kind": kind, "key": list(key), "weight": 6})
        area = make(kind, key)
        picks = []
        for ri, regs in enumerate(reg_sets(kind, area)):
            rl = regs.get_registers()
            computed = set(area.computed_fields) if kind == "pfr" else set()
            for i, reg in enumerate(rl):
                if is_fixed(kind, reg) or too_wide(reg):
                    continue
                if not q or i in (0, len(rl) - 1) or i % 7 == 3 or reg.uid in computed or reg.has_group_registers():
                    picks.append((ri, i, reg.name))
        for ri, i, name in picks:
            cs.append({"id": f"cfg/{kind}/{tag}/{name}", "h": "cfg", "kind": kind, "key": list(key), "reg": [ri, i], "weight": 2})
        if kind == "pfr":
            for reg_uid, fields in area.computed_fields.items():
                for bf_uid, method in fields.items():
                    cs.append({"id": f"computed/{tag}/{area.registers.get_reg(reg_uid).name}", "h": "computed", "key": list(key),
                               "reg_uid": reg_uid, "method": method})
        if kind == "xmcd":
            cs.append({"id": f"xmcdsize/{tag}", "h": "xmcdsize", "key": list(key)})
    return cs


def run(env, case):
    globals()["h_" + case["h"]](env, case)

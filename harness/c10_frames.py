"""C10 (frame layer) - mboot serial frames and USB-HID reports: interface.read() returns a payload / response only for a
well-formed frame and returns exactly its content; everything else ends in a documented exception; what is written is
the reference encoding.  The device-to-host byte stream is ONE arbitrary symbolic byte vector followed by silence, which
subsumes every byte-level fault at every position (corrupt CRC / byte, NAK, abort frame, truncation, silence)."""
PROPERTY = "C10"
NAME = "c10_frames"
LOGIC = "bv"
ENCODES = [
    "spsdk.mboot.protocol.serial_protocol.MbootSerialProtocol.read", "spsdk.mboot.protocol.serial_protocol.MbootSerialProtocol._read_frame_header",
    "spsdk.mboot.protocol.serial_protocol.MbootSerialProtocol._wait_for_data", "spsdk.mboot.protocol.serial_protocol.MbootSerialProtocol._send_frame",
    "spsdk.mboot.protocol.serial_protocol.MbootSerialProtocol._send_ack", "spsdk.mboot.protocol.serial_protocol.MbootSerialProtocol._create_frame",
    "spsdk.mboot.protocol.serial_protocol.MbootSerialProtocol._calc_frame_crc", "spsdk.mboot.protocol.serial_protocol.MbootSerialProtocol.write_data",
    "spsdk.mboot.protocol.serial_protocol.MbootSerialProtocol.write_command",
    "spsdk.mboot.protocol.bulk_protocol.MbootBulkProtocol.read", "spsdk.mboot.protocol.bulk_protocol.MbootBulkProtocol._parse_frame",
    "spsdk.mboot.protocol.bulk_protocol.MbootBulkProtocol._create_frame", "spsdk.mboot.protocol.bulk_protocol.MbootBulkProtocol.write_data",
    "spsdk.mboot.protocol.bulk_protocol.MbootBulkProtocol.write_command",
    "spsdk.mboot.commands.parse_cmd_response", "spsdk.mboot.commands.CmdHeader.from_bytes", "spsdk.mboot.commands.CmdResponse.__init__",
    "spsdk.mboot.commands.GenericResponse.__init__", "spsdk.mboot.commands.GetPropertyResponse.__init__",
    "spsdk.mboot.commands.ReadMemoryResponse.__init__", "spsdk.mboot.commands.CmdPacket.to_bytes",
    "spsdk.sdp.protocol.serial_protocol.SDPSerialProtocol.read", "spsdk.sdp.protocol.bulk_protocol.SDPBulkProtocol.read",
]
BOUNDS = {
    "quick": "serial: device-to-host stream = N arbitrary bytes then silence, N in {0..4, 6, 8, 10, 12} (a frame with a 4..6 "
             "byte payload fits); HID: one arbitrary report of N in {0, 1, 3, 4, 5, 8, 12} bytes; written payloads 1..8 "
             "symbolic bytes, ACK stream of 0..3 arbitrary bytes",
    "thorough": "serial N up to 16, reports up to 24 bytes",
}
OUTSIDE = ("UART / USB drivers and real timing (device stub: read(n) returns the next n bytes or raises TimeoutError when the "
           "stream is exhausted); frames longer than the bounds; the ping handshake of open(); BUSPAL variants; serial frames "
           "of a type other than DATA / CMD / ABORT that carry a valid CRC are returned as data by the implementation - the "
           "reference decoder mirrors this leniency (it needs a multi-byte corruption that keeps the CRC valid)")
STUBS = ["device -> byte stream stub with a write log", "crcmod -> bit-exact BV model"]
MUST_REACH = ["serial\\..*", "hid\\..*", "resp\\..*", "sdp\\..*"]
OPTS = {"quick": {"case_timeout_s": 300, "max_paths": 20000}, "thorough": {"case_timeout_s": 2400, "max_paths": 200000}}


def setup(symbolic):
    global SP, BP, CMD, MEX, EX, SYM, SSP, SBP, SCMD
    SYM = symbolic
    import spsdk.exceptions as EX
    import spsdk.mboot.exceptions as MEX
    import spsdk.mboot.commands as CMD
    import spsdk.mboot.protocol.serial_protocol as SP
    import spsdk.mboot.protocol.bulk_protocol as BP
    import spsdk.sdp.protocol.serial_protocol as SSP
    import spsdk.sdp.protocol.bulk_protocol as SBP
    import spsdk.sdp.commands as SCMD


class Dev:
    """byte stream device: read(n) -> next n bytes, TimeoutError when fewer are left; write() logs"""

    def __init__(self, stream, whole_reports=False):
        self.stream, self.pos, self.log, self.timeout, self.whole = stream, 0, [], 5000, whole_reports
        self.is_opened = True

    def read(self, length, timeout=None):
        if self.whole:                      # HID: one report per read
            if self.pos:
                raise TimeoutError()
            self.pos = 1
            return self.stream
        if self.pos + length > len(self.stream):
            self.pos = len(self.stream)
            raise TimeoutError()
        out = self.stream[self.pos: self.pos + length]
        self.pos += length
        return out

    def write(self, data):
        self.log.append(data)

    def open(self):
        pass

    def close(self):
        pass


def ref_crc16(env, data):
    """CRC-16/XMODEM, bitwise reference (independent of crcmod)"""
    if env.symbolic:
        from symx.shims import crc_generic
        return crc_generic(list(data), 16, 0x1021, 0, False, 0)
    crc = 0
    for b in data:
        crc ^= b << 8
        for _ in range(8):
            crc = ((crc << 1) ^ 0x1021) & 0xFFFF if crc & 0x8000 else (crc << 1) & 0xFFFF
    return crc


DOCUMENTED = None


def documented(e):
    return isinstance(e, (MEX.McuBootError, EX.SPSDKError, TimeoutError))


# -------------------------------------------------------------------------------------------------------- serial read
def h_serial_read(env, c):
    N = c["N"]
    stream = env.bytes("stream", N)
    dev = Dev(stream)
    proto = SP.MbootSerialProtocol(dev)
    try:
        res = proto.read()
        exc = None
    except Exception as e:       # noqa: harness classifies below
        res, exc = None, e
    s = list(stream)
    # ---- reference decoder (frames the documentation describes + the documented SPI work-around) -------------------
    # leading 0x00 'not ready' bytes are skipped
    z = 0
    while z < N and env.is_true(s[z] == 0):
        z += 1
    r = s[z:]
    if exc is not None:
        env.prove(documented(exc), "serial.fault_surfaces_as_documented_exception")
    if len(r) == 0:
        env.prove(exc is not None and isinstance(exc, (TimeoutError, MEX.McuBootConnectionError)), "serial.silence_is_a_timeout")
        return
    start_ok = env.Or(r[0] == 0x5A, r[0] == 0xA1)
    if not env.is_true(start_ok):
        env.prove(isinstance(exc, MEX.McuBootConnectionError), "serial.bad_start_byte_rejected")
        return
    if env.is_true(r[0] == 0xA1):
        ftype, body = 0xA1, r[1:]           # SPSDK-1824 work-around: an ACK byte may stand in for the start byte
    else:
        if len(r) < 2:
            env.prove(isinstance(exc, TimeoutError), "serial.truncated_frame_is_a_timeout")
            return
        ftype, body = r[1], r[2:]
    if env.is_true(ftype == 0xA3):
        env.prove(isinstance(exc, MEX.McuBootDataAbortError), "serial.abort_frame_raises_data_abort")
        return
    if len(body) < 4:
        env.prove(isinstance(exc, TimeoutError), "serial.truncated_frame_is_a_timeout")
        return
    ln = env.from_bytes(body[0:2], "little")
    crc = env.from_bytes(body[2:4], "little")
    if env.is_true(ln == 0):
        env.prove(isinstance(exc, MEX.McuBootDataAbortError), "serial.zero_length_frame_raises_data_abort")
        return
    avail = len(body) - 4
    fits = [k for k in range(1, avail + 1)]
    k = None
    for cand in fits:
        if env.is_true(ln == cand):
            k = cand
            break
    if k is None:
        env.prove(isinstance(exc, TimeoutError), "serial.truncated_payload_is_a_timeout")
        return
    payload = body[4: 4 + k]
    good = crc == ref_crc16(env, [0x5A, ftype] + body[0:2] + payload)
    if not env.is_true(good):
        env.prove(isinstance(exc, MEX.McuBootConnectionError), "serial.bad_crc_rejected")
        env.prove(res is None, "serial.no_data_returned_for_bad_crc")
        return
    # a well-formed frame: acknowledged, and delivered exactly
    env.prove(any(bytes(w) == b"\x5a\xa1" for w in dev.log), "serial.frame_acknowledged")
    if env.is_true(ftype == 0xA4):
        check_response(env, res, exc, payload, "serial")
    else:
        env.prove(exc is None and not isinstance(res, CMD.CmdResponse), "serial.data_frame_returned_as_bytes")
        if exc is None and not isinstance(res, CMD.CmdResponse):
            env.prove_eq(res, payload if env.symbolic else bytes(payload), "serial.data_payload_exact_and_complete")


def check_response(env, res, exc, payload, lbl):
    """a command frame / report with `payload`: parsed into the response class of its tag, fields as sent"""
    p = list(payload)
    if len(p) < 4:
        env.prove(isinstance(exc, MEX.McuBootError), "resp.short_header_rejected")
        return
    tag, nparams = p[0], p[3]
    body = p[4:]
    # every response carries at least the status word; typed responses carry what their class reads
    need = 4
    kinds = {0xA0: 8, 0xA3: 8, 0xB0: 8, 0xB3: 8, 0xB5: 8}
    for t, n in kinds.items():
        if env.is_true(tag == t):
            need = n
    variable = env.is_true(env.Or(tag == 0xA7, tag == 0xAF, tag == 0xB6))     # get-property / read-once / trust-prov.
    if variable:
        npar = None
        for cand in range(0, len(body) // 4 + 2):
            if env.is_true(nparams == cand):
                npar = cand
        if npar is None or npar * 4 > len(body) or npar < (2 if env.is_true(tag == 0xAF) else 1) or (
                env.is_true(tag == 0xB6) and npar * 4 != len(body)):
            env.prove(exc is not None and isinstance(exc, MEX.McuBootError), "resp.inconsistent_parameter_count_rejected")
            return
        need = 4
    if len(body) < need:
        env.prove(exc is not None and isinstance(exc, MEX.McuBootError), "resp.truncated_response_rejected")
        return
    env.prove(exc is None and isinstance(res, CMD.CmdResponse), lbl + ".command_frame_returned_as_response")
    if exc is not None or not isinstance(res, CMD.CmdResponse):
        return
    env.prove(res.header.tag == tag, "resp.tag_as_sent")
    env.prove(res.status == env.from_bytes(body[0:4], "little"), "resp.status_as_sent")
    if isinstance(res, CMD.GenericResponse):
        env.prove(res.cmd_tag == env.from_bytes(body[4:8], "little"), "resp.generic_command_tag_as_sent")
    if isinstance(res, CMD.ReadMemoryResponse):
        env.prove(res.length == env.from_bytes(body[4:8], "little"), "resp.read_memory_length_as_sent")
    if isinstance(res, CMD.GetPropertyResponse):
        vals = [env.from_bytes(body[4 * i: 4 * i + 4], "little") for i in range(1, npar)]
        env.prove(len(res.values) == len(vals) and all(env.is_true(a == b) for a, b in zip(res.values, vals)),
                  "resp.property_values_as_sent")


# -------------------------------------------------------------------------------------------------------- serial write
def h_serial_write(env, c):
    n, kind = c["n"], c["kind"]
    data = env.bytes("data", n)
    ack = env.bytes("ack_stream", c["A"])
    dev = Dev(ack)
    proto = SP.MbootSerialProtocol(dev)
    try:
        if kind == "data":
            proto.write_data(data)
        else:
            class P(CMD.CmdPacketBase):
                def to_bytes(self, padding=True):
                    return data
            proto.write_command(P())
        exc = None
    except Exception as e:       # noqa
        exc = e
    env.prove(len(dev.log) >= 1, "serial.frame_written")
    if dev.log:
        w = list(dev.log[0])
        ftype = 0xA5 if kind == "data" else 0xA4
        head = [0x5A, ftype, n & 0xFF, n >> 8]
        crc = ref_crc16(env, head + list(data))
        ok = env.And(env.bytes_eq(w[0:4], head), env.from_bytes(w[4:6], "little") == crc, env.bytes_eq(w[6:], data))
        env.prove(len(w) == 6 + n and env.is_true(ok) if not env.symbolic else (ok if len(w) == 6 + n else False),
                  "serial.written_frame_is_reference_encoding")
        env.prove(len(dev.log) == 1, "serial.frame_written_once")
    a = list(ack)
    z = 0
    while z < len(a) and env.is_true(a[z] == 0):
        z += 1
    r = a[z:]
    if exc is not None:
        env.prove(documented(exc), "serial.fault_surfaces_as_documented_exception")
    acked = False
    if len(r) >= 1 and env.is_true(r[0] == 0xA1):
        acked = True
    elif len(r) >= 2 and env.is_true(env.And(r[0] == 0x5A, r[1] == 0xA1)):
        acked = True
    env.prove((exc is None) == acked, "serial.write_succeeds_iff_acknowledged")
    if len(r) >= 2 and env.is_true(env.And(r[0] == 0x5A, r[1] == 0xA2)):
        env.prove(isinstance(exc, MEX.McuBootConnectionError), "serial.nak_raises_connection_error")
    if len(r) >= 2 and env.is_true(env.And(r[0] == 0x5A, r[1] == 0xA3)):
        env.prove(isinstance(exc, MEX.McuBootDataAbortError), "serial.abort_raises_data_abort")


# -------------------------------------------------------------------------------------------------------- HID
def h_hid_read(env, c):
    N = c["N"]
    rep = env.bytes("report", N)
    dev = Dev(rep, whole_reports=True)
    proto = BP.MbootBulkProtocol(dev)
    try:
        res = proto.read()
        exc = None
    except Exception as e:       # noqa
        res, exc = None, e
    r = list(rep)
    if exc is not None:
        env.prove(documented(exc), "hid.fault_surfaces_as_documented_exception")
    if N == 0:
        env.prove(isinstance(exc, (TimeoutError, EX.SPSDKError)), "hid.no_report_is_a_timeout")
        return
    if N < 4:
        env.prove(exc is not None, "hid.truncated_report_header_rejected")
        return
    rid = r[0]
    plen = env.from_bytes(r[2:4], "little")
    if env.is_true(plen == 0):
        env.prove(isinstance(exc, MEX.McuBootDataAbortError), "hid.zero_length_report_raises_data_abort")
        return
    k = None
    for cand in range(1, N - 4 + 1):
        if env.is_true(plen == cand):
            k = cand
    if k is None:
        # the report announces more payload than it carries
        env.prove(exc is not None, "hid.truncated_report_not_returned_as_data")
        return
    payload = r[4: 4 + k]
    if env.is_true(rid == 0x03):
        check_response(env, res, exc, payload, "hid")
    else:
        env.prove(exc is None and not isinstance(res, CMD.CmdResponse), "hid.data_report_returned_as_bytes")
        if exc is None and not isinstance(res, CMD.CmdResponse):
            env.prove_eq(res, payload if env.symbolic else bytes(payload), "hid.data_payload_exact_and_complete")


def h_hid_write(env, c):
    n, kind = c["n"], c["kind"]
    data = env.bytes("data", n)
    dev = Dev(b"", whole_reports=True)
    proto = BP.MbootBulkProtocol(dev)
    if kind == "data":
        proto.write_data(data)
    else:
        class P(CMD.CmdPacketBase):
            def to_bytes(self, padding=True):
                return data
        proto.write_command(P())
    env.prove(len(dev.log) == 1, "hid.report_written_once")
    w = list(dev.log[0])
    head = [0x02 if kind == "data" else 0x01, 0, n & 0xFF, n >> 8]
    ok = env.And(env.bytes_eq(w[0:4], head), env.bytes_eq(w[4:], data))
    env.prove(len(w) == 4 + n and env.is_true(ok) if not env.symbolic else (ok if len(w) == 4 + n else False),
              "hid.written_report_is_reference_encoding")


def h_cmdpacket(env, c):
    """CmdPacket.to_bytes: tag, flags, 0, count, params LE"""
    nargs = c["n"]
    args = [env.int(f"arg{i}", 0, 0xFFFFFFFF) for i in range(nargs)]
    flags = env.int("flags", 0, 255)
    tag = CMD.CommandTag.from_tag(c["tag"])
    p = CMD.CmdPacket(tag, flags, *args)
    b = list(p.to_bytes(padding=False))
    env.prove(len(b) == 4 + 4 * nargs, "resp.cmd_packet_length")
    env.prove(env.And(b[0] == c["tag"], b[1] == flags, b[2] == 0, b[3] == nargs), "resp.cmd_packet_header")
    for i, a in enumerate(args):
        env.prove(env.from_bytes(b[4 + 4 * i: 8 + 4 * i], "little") == a, "resp.cmd_packet_parameter_little_endian")
    padded = list(p.to_bytes())
    env.prove(len(padded) == max(32, len(b)) and env.is_true(env.And(env.bytes_eq(padded[:len(b)], b), *[x == 0 for x in padded[len(b):]])),
              "resp.cmd_packet_padding")


# -------------------------------------------------------------------------------------------------------- SDP
def h_sdp_read(env, c):
    """SDP interfaces: read(n) returns a CmdResponse over exactly the bytes the device sent"""
    N, want, kind = c["N"], c["want"], c["kind"]
    stream = env.bytes("stream", N)
    if kind == "serial":
        dev = Dev(stream)
        proto = SSP.SDPSerialProtocol(dev)
        proto.write_data(b"\x00")        # (a read always follows a write; the first answer after a write is a status)
    else:
        dev = Dev(stream, whole_reports=True)
        proto = SBP.SDPBulkProtocol(dev)
    try:
        res = proto.read(want)
        exc = None
    except Exception as e:       # noqa
        res, exc = None, e
    s = list(stream)
    if exc is not None:
        env.prove(documented(exc), "sdp.fault_surfaces_as_documented_exception")
    if kind == "serial":
        if N < want:
            env.prove(exc is not None, "sdp.short_stream_is_an_error")
            return
        env.prove(exc is None, "sdp.serial_read_returns")
        if exc is None:
            env.prove_eq(res.raw_data, s[:want] if env.symbolic else bytes(s[:want]), "sdp.serial_bytes_exact")
            env.prove(bool(res.hab), "sdp.serial_first_answer_after_write_is_status")
    else:
        if N == 0:
            env.prove(exc is not None, "sdp.no_report_is_an_error")
            return
        if N < 2:
            env.prove(exc is not None or res is not None, "sdp.tiny_report_handled")
            return
        env.prove(exc is None, "sdp.hid_read_returns")
        if exc is None:
            env.prove_eq(res.raw_data, s[1:] if env.symbolic else bytes(s[1:]), "sdp.hid_payload_is_report_without_id")
            env.prove(bool(res.hab) == bool(env.is_true(s[0] == 3)), "sdp.hid_report_3_is_hab_status")


def cases(tier):
    q = tier == "quick"
    cs = []
    for N in ((0, 1, 2, 3, 4, 6, 8, 10, 12) if q else tuple(range(0, 17))):
        cs.append({"id": f"serial_read/N={N}", "h": "serial_read", "N": N, "weight": N})
    for kind in ("data", "cmd"):
        for n in ((1, 4, 8) if q else (1, 2, 4, 8, 16)):
            for A in (0, 1, 2, 3):
                cs.append({"id": f"serial_write/{kind}/n={n}/ack={A}", "h": "serial_write", "kind": kind, "n": n, "A": A})
    for N in ((0, 1, 3, 4, 5, 8, 12) if q else tuple(range(0, 25))):
        cs.append({"id": f"hid_read/N={N}", "h": "hid_read", "N": N, "weight": N})
    for kind in ("data", "cmd"):
        for n in (1, 4, 8):
            cs.append({"id": f"hid_write/{kind}/n={n}", "h": "hid_write", "kind": kind, "n": n})
    for tag, n in ((0x03, 3), (0x04, 3), (0x07, 2), (0x02, 3), (0x0B, 0), (0x05, 3)):
        cs.append({"id": f"cmdpacket/tag={tag:#x}/n={n}", "h": "cmdpacket", "tag": tag, "n": n})
    for kind in ("serial", "hid"):
        for N in (0, 1, 4, 5, 8):
            for want in (4, 8) if kind == "serial" else (64,):
                cs.append({"id": f"sdp_read/{kind}/N={N}/want={want}", "h": "sdp_read", "kind": kind, "N": N, "want": want})
    return cs


def run(env, case):
    globals()["h_" + case["h"]](env, case)

"""C04 - Secure Binary 2.1/2.0: an independent ROM model decodes exactly the command list that was given."""
import datetime

PROPERTY = "C04"
NAME = "c04_sb2"
LOGIC = "bv"
ENCODES = [
    "spsdk.sbfile.sb2.commands.CmdHeader.export", "spsdk.sbfile.sb2.commands.CmdHeader.parse",
    "spsdk.sbfile.sb2.commands.CmdHeader.crc", "spsdk.sbfile.sb2.commands.parse_command",
    "spsdk.sbfile.sb2.commands.CmdLoad.export", "spsdk.sbfile.sb2.commands.CmdLoad.parse",
    "spsdk.sbfile.sb2.commands.CmdFill.__init__", "spsdk.sbfile.sb2.commands.CmdFill.export",
    "spsdk.sbfile.sb2.commands.CmdJump.__init__", "spsdk.sbfile.sb2.commands.CmdCall.__init__",
    "spsdk.sbfile.sb2.commands.CmdErase.__init__", "spsdk.sbfile.sb2.commands.CmdMemEnable.__init__",
    "spsdk.sbfile.sb2.commands.CmdProg.__init__", "spsdk.sbfile.sb2.commands.CmdVersionCheck.__init__",
    "spsdk.sbfile.sb2.commands.CmdKeyStoreBackupRestore.__init__",
    "spsdk.sbfile.sb2.sections.BootSectionV2.export", "spsdk.sbfile.sb2.sections.BootSectionV2.parse",
    "spsdk.sbfile.sb2.sections.BootSectionV2.hmac_count", "spsdk.sbfile.sb2.sections.BootSectionV2.raw_size",
    "spsdk.sbfile.sb2.headers.ImageHeaderV2.export", "spsdk.sbfile.sb2.headers.ImageHeaderV2.parse",
    "spsdk.sbfile.sb2.images.BootImageV21.export", "spsdk.sbfile.sb2.images.BootImageV21.parse",
    "spsdk.sbfile.sb2.images.BootImageV21.update", "spsdk.sbfile.sb2.images.BootImageV21.raw_size",
    "spsdk.sbfile.sb2.images.SBV2xAdvancedParams.__init__", "spsdk.crypto.symmetric.Counter.increment",
    "spsdk.utils.crypto.cert_blocks.CertBlockV1.export", "spsdk.utils.crypto.cert_blocks.CertBlockV1.parse",
    "spsdk.utils.crypto.cert_blocks.CertBlockV1.raw_size", "spsdk.utils.crypto.cert_blocks.CertBlockHeader.export",
    "spsdk.sbfile.misc.SecBootBlckSize.to_num_blocks", "spsdk.sbfile.misc.BcdVersion3.from_str",
]
BOUNDS = {
    "quick": "SB2.1 images with 1..2 sections of 1..3 commands drawn from 14 command kinds (every kind alone, every "
             "kind after a LOAD, a sample of triples); all command fields symbolic in range (32-bit addresses/counts/"
             "data, 16-bit-safe flags, memory ids incl. group ids, jump with/without SP, fill patterns 1/2/4 bytes, load "
             "data lengths {1,15,16,17,32} of symbolic bytes); requested HMAC-table size 1..5; product != component "
             "version; build number 32-bit; flags with/without the SHA bit; DEK/MAC/nonce/KEK/certificate bytes "
             "symbolic; stub certificate chains of 1..2 with signature size 256/384/512",
    "thorough": "as quick with all ordered pairs and triples of command kinds, load data of every length 0..33, "
                "three sections",
}
OUTSIDE = ("real AES/HMAC/RSA/SHA (stubbed); timestamps other than two concrete ones; SB2.0 unsigned images; OTFAD "
           "key-blob commands (encrypt/keywrap, see C13); header fields image_blocks/first_boot_tag_block when the SHA "
           "flag is set (ROM convention not documented)")
STUBS = ["Crc.calculate -> uninterpreted function keyed by the algorithm parameters (the CRC algorithm is decided in C09)",
         "cryptography symmetric API -> ideal cipher model; AES-CTR = XOR with UF keystream per (key, counter block)",
         "hmac/get_hash -> uninterpreted functions with argument capture", "random_bytes -> fresh symbolic bytes",
         "Certificate -> StubCertificate (opaque body; parse is inverse of export), signature provider -> UF SIGN"]
MUST_REACH = ["cmd\\..*", "rom\\..*", "parse\\..*", "rom20\\..*", "parse20\\..*"]
OPTS = {"quick": {"case_timeout_s": 400}, "thorough": {"case_timeout_s": 2400}}

KINDS = ["nop", "load1", "load15", "load16", "load17", "load32", "fill1", "fill2", "fill4", "jump", "jump_sp", "call",
         "erase", "erase_mem", "reset", "enable", "prog4", "prog8", "vercheck", "ks_to_nv", "ks_from_nv"]
TS = datetime.datetime(2021, 3, 4, 5, 6, 7)


def setup(symbolic):
    global C, SEC, IMG, HDR, CB, EX, S, K, SYM
    SYM = symbolic
    import spsdk.exceptions as EX
    import spsdk.crypto.symmetric as S
    if symbolic:
        from symx import stubs, loader, keystubs
        stubs.install_symmetric()
        import spsdk.crypto.hash as HM
        import spsdk.crypto.spsdk_hmac as HH
        import spsdk.crypto.rng as RNG
        loader.patch_everywhere(HM.get_hash, stubs.get_hash)
        loader.patch_everywhere(HH.hmac, stubs.hmac)
        cnt = [0]

        def random_bytes(n):
            from symx.sbytes import var_bytes
            cnt[0] += 1
            return var_bytes(f"rng{cnt[0]}", n)
        loader.patch_everywhere(RNG.random_bytes, random_bytes)
        # the CRC algorithm itself is decided in C09; here only WHAT is summed matters -> uninterpreted function
        import spsdk.crypto.crc as CRCM

        def crc_calculate(self, data):
            from symx.sbytes import from_bytes
            key = [self.polynomial % 256, self.initial_value % 256, self.final_xor % 256, int(self.reverse)]
            return from_bytes(stubs.uf("CRC", [key, data], 4), "big")
        CRCM.Crc.calculate = crc_calculate
    import spsdk.sbfile.sb2.commands as C
    import spsdk.sbfile.sb2.sections as SEC
    import spsdk.sbfile.sb2.images as IMG
    import spsdk.sbfile.sb2.headers as HDR
    import spsdk.utils.crypto.cert_blocks as CB
    if symbolic:
        CB.Certificate = keystubs.StubCertificate
        K = SymCrypto()
    else:
        K = RealCrypto()


# ------------------------------------------------------------------------------------------------
class SymCrypto:
    def hmac(self, key, data):
        from symx import stubs
        return stubs.hmac(key, data)

    def sha256(self, data):
        from symx import stubs
        return stubs.get_hash(data)

    def ctr_block(self, key, cb16, data16):
        from symx import stubs
        from symx.sbytes import items_of
        ks = stubs.uf("AES-KS", [items_of(key), items_of(cb16)], 16)
        return [a ^ b for a, b in zip(items_of(data16), ks)]

    def unwrap(self, kek, blob):
        from symx import stubs
        return stubs.keywrap.aes_key_unwrap(kek, blob)

    def crc32_mpeg(self, data):
        from symx import stubs
        from symx.sbytes import from_bytes
        return from_bytes(stubs.uf("CRC", [[0x04C11DB7 % 256, 0xFF, 0, 0], data], 4), "big")


class RealCrypto:
    def hmac(self, key, data):
        import hashlib
        import hmac
        return hmac.new(bytes(key), bytes(data), hashlib.sha256).digest()

    def sha256(self, data):
        import hashlib
        return hashlib.sha256(bytes(data)).digest()

    def ctr_block(self, key, cb16, data16):
        from cryptography.hazmat.primitives.ciphers import Cipher, algorithms, modes
        e = Cipher(algorithms.AES(bytes(key)), modes.ECB()).encryptor()
        ks = e.update(bytes(cb16)) + e.finalize()
        return [a ^ b for a, b in zip(bytes(data16), ks)]

    def unwrap(self, kek, blob):
        from cryptography.hazmat.primitives import keywrap
        return keywrap.aes_key_unwrap(bytes(kek), bytes(blob))

    def crc32_mpeg(self, data):
        crc = 0xFFFFFFFF
        for b in bytes(data):
            crc ^= b << 24
            for _ in range(8):
                crc = ((crc << 1) & 0xFFFFFFFF) ^ (0x04C11DB7 if crc & 0x80000000 else 0)
        return crc


# ------------------------------------------------------------------------------------------------
def _mem_flags(mem):
    # ROM format: bits 4-7 group id, bits 8-15 device id; memory id = group << 8 | device
    return (mem // 256 % 16) * 16 + (mem % 256) * 256


def make_cmd(env, kind, i):
    """Returns (spsdk command object, expected ROM header dict, expected payload spec)."""
    p = f"c{i}_"
    u32 = lambda n: env.int(p + n, 0, 0xFFFFFFFF)
    if kind == "nop":
        return C.CmdNop(), dict(tag=0, flags=0, address=0, count=0, data=0), None
    if kind.startswith("load"):
        n = int(kind[4:])
        addr, mem = u32("addr"), env.int(p + "mem", 0, 0xFFF)
        data = env.bytes(p + "data", n)
        return (C.CmdLoad(addr, data, mem_id=mem), dict(tag=2, flags=_mem_flags(mem), address=addr), ("load", data))
    if kind.startswith("fill"):
        w = int(kind[4:])
        addr = u32("addr")
        lo = {1: 1, 2: 0x100, 4: 0x1000000}[w]
        hi = {1: 0xFF, 2: 0xFFFF, 4: 0xFFFFFFFF}[w]
        pat = env.int(p + "pattern", lo, hi)
        ln = env.int(p + "words", 1, 0x3FFFFFFF) * 4
        word = pat * {1: 0x01010101, 2: 0x00010001, 4: 1}[w]
        return C.CmdFill(addr, pat, ln), dict(tag=3, flags=0, address=addr, count=ln, data=word), None
    if kind == "jump":
        addr, arg = u32("addr"), u32("arg")
        return C.CmdJump(addr, arg), dict(tag=4, flags=0, address=addr, count=0, data=arg), None
    if kind == "jump_sp":
        addr, arg, sp = u32("addr"), u32("arg"), u32("sp")
        return C.CmdJump(addr, arg, sp), dict(tag=4, flags=2, address=addr, count=sp, data=arg), None
    if kind == "call":
        addr, arg = u32("addr"), u32("arg")
        return C.CmdCall(addr, arg), dict(tag=5, flags=0, address=addr, count=0, data=arg), None
    if kind in ("erase", "erase_mem"):
        addr, ln, fl = u32("addr"), u32("len"), env.int(p + "flags", 0, 15)
        mem = env.int(p + "mem", 0, 0xFFF) if kind == "erase_mem" else 0
        return (C.CmdErase(addr, ln, fl, mem), dict(tag=7, flags=fl + _mem_flags(mem), address=addr, count=ln, data=0), None)
    if kind == "reset":
        return C.CmdReset(), dict(tag=8, flags=0, address=0, count=0, data=0), None
    if kind == "enable":
        addr, size, mem = u32("addr"), u32("size"), env.int(p + "mem", 0, 0xFFF)
        return C.CmdMemEnable(addr, size, mem), dict(tag=9, flags=_mem_flags(mem), address=addr, count=size, data=0), None
    if kind == "prog4":
        addr, w1, mem = u32("addr"), u32("w1"), env.int(p + "mem", 0, 0xFF)
        return C.CmdProg(addr, mem, w1), dict(tag=10, flags=mem * 256, address=addr, count=w1, data=0), None
    if kind == "prog8":
        addr, w1, w2, mem = u32("addr"), u32("w1"), env.int(p + "w2", 1, 0xFFFFFFFF), env.int(p + "mem", 0, 0xFF)
        return C.CmdProg(addr, mem, w1, w2), dict(tag=10, flags=mem * 256 + 1, address=addr, count=w1, data=w2), None
    if kind == "vercheck":
        t = env.choice(p + "type", 2)
        ver = u32("ver")
        vt = C.VersionCheckType.SECURE_VERSION if t == 0 else C.VersionCheckType.NON_SECURE_VERSION
        return C.CmdVersionCheck(vt, ver), dict(tag=11, flags=0, address=t, count=ver, data=0), None
    if kind in ("ks_to_nv", "ks_from_nv"):
        from spsdk.mboot.memories import ExtMemId
        addr = u32("addr")
        cls = C.CmdKeyStoreRestore if kind == "ks_to_nv" else C.CmdKeyStoreBackup
        return (cls(addr, ExtMemId.from_tag(9)), dict(tag=12 if kind == "ks_to_nv" else 13, flags=9 * 256, address=addr,
                                                       count=4, data=0), None)
    raise ValueError(kind)


def u16(b, o):
    return ENV.from_bytes(b[o: o + 2], "little")


def u32le(b, o):
    return ENV.from_bytes(b[o: o + 4], "little")


def rom_decode_cmds(env, plain, specs, label):
    """Independent decoder of the SB2 command stream; compares every decoded command with the given one."""
    pos = 0
    for idx, (cmd, hdr, payload) in enumerate(specs):
        env.prove(len(plain) >= pos + 16, f"{label}.stream_long_enough")
        h = plain[pos: pos + 16]
        s = 0x5A
        for b in h[1:16]:
            s = s + b
        env.prove(h[0] == s % 256, f"{label}.header_checksum_valid")
        conds = [h[1] == hdr["tag"], u16(h, 2) == hdr["flags"], u32le(h, 4) == hdr["address"]]
        pos += 16
        if payload is None:
            conds += [u32le(h, 8) == hdr["count"], u32le(h, 12) == hdr["data"]]
            env.prove(env.And(*conds), f"{label}.command_equals_given")
        else:
            data = payload[1]
            n = len(data)
            padded = (n + 15) // 16 * 16
            env.prove(env.And(*conds), f"{label}.command_equals_given")
            cnt = u32le(h, 8)
            # the ROM loads `count` bytes: it must be the length of the data that was given
            env.prove(cnt == n, f"{label}.load_count_is_data_length")
            body = plain[pos: pos + padded]
            env.prove(len(body) == padded, f"{label}.load_payload_present")
            env.prove(env.bytes_eq(body[:n], data), f"{label}.load_data_equals_given")
            env.prove(u32le(h, 12) == K.crc32_mpeg(body), f"{label}.load_crc_over_payload")
            pos += padded
    env.prove(all_zero(env, plain[pos:]), f"{label}.only_padding_after_last_command")
    return pos


def all_zero(env, items):
    return env.And(*[b == 0 for b in items]) if len(items) else True


def h_cmd(env, c):
    """single command: export -> independent decode, and SPSDK's own parse_command round trip."""
    cmd, hdr, payload = make_cmd(env, c["kind"], 0)
    raw = cmd.export()
    env.prove(len(raw) % 16 == 0, "cmd.export_is_block_multiple")
    env.prove(len(raw) == cmd.raw_size, "cmd.raw_size_matches_export")
    rom_decode_cmds(env, list(raw), [(cmd, hdr, payload)], "cmd")
    back = C.parse_command(raw)
    env.prove(type(back) is type(cmd), "cmd.parse_same_type")
    env.prove_eq(back.export(), raw, "cmd.parse_then_export_is_identity")
    env.observe("raw_tag_flags_addr", raw[1:8])


# ------------------------------------------------------------------------------------------------
def _cert_block(env, c):
    if env.symbolic:
        from symx import keystubs
        sig_len = c["sig"]
        cb = CB.CertBlockV1(build_number=1)
        chain = []
        for i in range(c["chain"]):
            last = i == c["chain"] - 1
            cert = keystubs.StubCertificate.make(env.bytes(f"cert{i}", 10), sig_len, ca=not last)
            chain.append(cert)
        cb.set_root_key_hash(c.get("rkh_index", 0), chain[0].public_key_hash())
        for cert in chain:
            cb.add_certificate(cert)
        sp = keystubs.StubSignatureProvider(chain[-1].body, sig_len)
        return cb, sp, sig_len
    from spsdk.crypto.certificate import Certificate
    from spsdk.crypto.signature_provider import get_signature_provider
    bits = {256: 2048, 512: 4096}.get(c["sig"], 2048)
    d = "/repo/tests/sbfile/data/sb2_x/"
    cert = Certificate.load(d + f"selfsign_{bits}_v3.der.crt")
    cb = CB.CertBlockV1(build_number=1)
    cb.set_root_key_hash(c.get("rkh_index", 0), cert.public_key_hash())
    cb.add_certificate(cert)
    sp = get_signature_provider(local_file_key=d + f"selfsign_privatekey_rsa{bits}.pem")
    return cb, sp, bits // 8


def decode_sections(env, c, b, n, sect0, sig_end, nonce, dek, mac, specs, v21=True):
    """ROM walk over the boot sections from file offset sect0: returns (end position, MAC entries seen, coverage map)"""
    # ---- sections ------------------------------------------------------------------------------------
    n0 = u32le(nonce, 12)
    pos = sect0
    total_macs = 0
    covered = [False] * n
    for i in range(sect0):
        covered[i] = i < sig_end
    for si, (uid, sp_) in enumerate(specs):
        env.prove(n >= pos + 48, "rom.section_header_present")

        def cblock(off):
            ctr = n0 + off // 16
            return list(nonce[:12]) + list(ctr.to_bytes(4, "little"))
        enc_hdr = b[pos: pos + 16]
        env.prove(env.bytes_eq(b[pos + 16: pos + 48], K.hmac(mac, enc_hdr)), "rom.section_header_mac")
        hdr = K.ctr_block(dek, cblock(pos), enc_hdr)
        s = 0x5A
        for x in hdr[1:16]:
            s = s + x
        env.prove(hdr[0] == s % 256, "rom.section_header_checksum")
        env.prove(env.And(hdr[1] == 1, u32le(hdr, 4) == uid), "rom.section_tag_and_uid")
        nblocks, hc = u32le(hdr, 8), u32le(hdr, 12)
        raw_blocks = sum(x[0].raw_size for x in sp_) // 16
        exp_hc = min(c["hmac"], raw_blocks)
        ok1 = env.prove(nblocks == raw_blocks, "rom.section_block_count")
        ok2 = env.prove(env.And(hc == exp_hc, exp_hc >= 1), "rom.section_mac_count")
        if not (ok1 and ok2):
            return None, total_macs, covered      # a header that does not decode: the ROM stops here, so does the walk
        nblocks, hc = raw_blocks, exp_hc
        total_macs += hc
        tab = pos + 48
        cmds = tab + 32 * hc
        end = cmds + 16 * nblocks
        env.prove(n >= end, "rom.section_fits_file")
        # section MAC table: entry i authenticates its share of the encrypted command blocks
        per = (nblocks // hc) * 16
        o = cmds
        for i in range(hc):
            e = end if i == hc - 1 else o + per
            env.prove(env.bytes_eq(b[tab + 32 * i: tab + 32 * i + 32], K.hmac(mac, b[o:e])), "rom.section_mac_entry")
            for j in range(o, e):
                covered[j] = True
            o = e
        for j in range(pos, cmds):
            covered[j] = True
        if si == 0 and v21:
            env.prove(env.bytes_eq(b[96:128], K.hmac(mac, b[pos + 16: cmds])), "rom.header_mac_over_first_section_macs")
        plain = []
        for j in range(nblocks):
            off = cmds + 16 * j
            plain += K.ctr_block(dek, cblock(off), b[off: off + 16])
        rom_decode_cmds(env, plain, sp_, "rom")
        pos = end
    return pos, total_macs, covered


def h_rom(env, c):
    kek = env.bytes("kek", 32)
    dek, mac, nonce = env.bytes("dek", 32), env.bytes("mac", 32), env.bytes("nonce", 16)
    # block counter = last nonce word + file offset / 16; a 32-bit wrap is refused (OverflowError, see C09) - keep clear
    env.assume(u32le(nonce, 12) <= 0xFFFF0000)
    build = env.int("build", 0, 0xFFFFFFFF)
    flags = 0x8008 if c["sha"] else 0x0008
    sections, specs = [], []
    ci = 0
    for si, kinds in enumerate(c["sections"]):
        sp_ = []
        for k in kinds:
            sp_.append(make_cmd(env, k, ci))
            ci += 1
        uid = env.int(f"uid{si}", 0, 0xFFFFFFFF)
        sections.append(SEC.BootSectionV2(uid, *[x[0] for x in sp_], hmac_count=c["hmac"]))
        specs.append((uid, sp_))
    adv = IMG.SBV2xAdvancedParams(dek=dek, mac=mac, nonce=nonce, timestamp=TS, padding=bytes(8))
    img = IMG.BootImageV21(kek, *sections, product_version=c["pv"], component_version=c["cv"], build_number=build,
                           advanced_params=adv, flags=flags)
    cb, sp, sig_len = _cert_block(env, c)
    img.cert_block = cb
    img.signature_provider = sp
    data = img.export(padding=bytes(8))
    b = list(data)
    n = len(b)
    env.prove(n % 16 == 0, "rom.file_is_block_multiple")
    # ---- header (independent field offsets of the SB2 image header) --------------------------------
    env.prove(env.bytes_eq(b[0:16], nonce), "rom.header_nonce")
    env.prove(bytes(b[20:24]) == b"STMP" and bytes(b[52:56]) == b"sgtl", "rom.header_signatures")
    env.prove(b[24] == 2 and b[25] == 1, "rom.header_version_2_1")
    env.prove(u16(b, 26) == flags, "rom.header_flags")
    image_blocks, first_tag_block, first_sect_id = u32le(b, 28), u32le(b, 32), u32le(b, 36)
    cert_off = u32le(b, 40)
    hdr_blocks, keyblob_block, keyblob_cnt, max_macs = u16(b, 44), u16(b, 46), u16(b, 48), u16(b, 50)
    env.prove(env.And(cert_off == 208, hdr_blocks == 6, keyblob_block == 8, keyblob_cnt == 5), "rom.header_layout_constants")

    def bcd_words(o):
        return [b[o + 4 * i] * 256 + b[o + 4 * i + 1] for i in range(3)]   # big-endian BCD half-words
    pv = [int(x, 16) for x in c["pv"].split(".")]
    cv = [int(x, 16) for x in c["cv"].split(".")]
    env.prove(bcd_words(64) == pv, "rom.header_product_version")
    env.prove(bcd_words(76) == cv, "rom.header_component_version")
    env.prove(u32le(b, 88) == build, "rom.header_build_number")
    # ---- key blob -----------------------------------------------------------------------------------
    blob = b[128:208]
    keys = K.unwrap(kek, blob[:72])
    env.prove(env.And(env.bytes_eq(keys[:32], dek), env.bytes_eq(keys[32:], mac)), "rom.keyblob_unwraps_to_dek_and_mac")
    env.prove(all_zero(env, blob[72:]), "rom.keyblob_padding")
    # ---- certificate block ---------------------------------------------------------------------------
    cbh = b[208:240]
    env.prove(bytes(cbh[0:4]) == b"cert" and u32le(cbh, 8) == 32, "rom.certblock_header")
    env.prove(u32le(cbh, 16) == build, "rom.certblock_build_number")
    cert_table_len = u32le(cbh, 28)
    cert_table_len = cert_table_len if isinstance(cert_table_len, int) else cert_table_len.__index__()
    cb_len = (32 + cert_table_len + 128 + 15) // 16 * 16
    sig_off = 208 + cb_len + (32 if c["sha"] else 0)
    env.prove(u32le(cbh, 20) == 208 + cb_len, "rom.certblock_image_length_is_signed_header_part")
    sect0 = sig_off + sig_len
    # ---- signature over everything before it ---------------------------------------------------------
    if env.symbolic:
        env.prove(len(sp.calls) == 1, "rom.one_signature")
        env.prove(env.bytes_eq(sp.calls[0], b[:sig_off]), "rom.signature_covers_header_mac_keyblob_certblock_sha")
        from symx import stubs
        exp_sig = stubs.uf("SIGN", [sp.ident, b[:sig_off]], sig_len)
        env.prove(env.bytes_eq(b[sig_off:sect0], exp_sig), "rom.signature_placed_after_signed_part")
    else:
        from cryptography.hazmat.primitives import hashes
        from cryptography.hazmat.primitives.asymmetric import padding
        pub = cb.certificates[-1].get_public_key().key
        try:
            pub.verify(bytes(b[sig_off:sect0]), bytes(b[:sig_off]), padding.PKCS1v15(), hashes.SHA256())
            ok = True
        except Exception:
            ok = False
        env.prove(True, "rom.one_signature")
        env.prove(ok, "rom.signature_covers_header_mac_keyblob_certblock_sha")
        env.prove(ok, "rom.signature_placed_after_signed_part")
    if c["sha"]:
        env.prove(env.bytes_eq(b[sig_off - 32: sig_off], K.sha256(b[sect0:])), "rom.sha256_of_boot_sections")
    else:
        env.prove(image_blocks * 16 == n, "rom.header_image_blocks")
        env.prove(first_tag_block * 16 == sect0, "rom.header_first_boot_tag_block")
    env.prove(first_sect_id == specs[0][0], "rom.header_first_boot_section_id")
    pos, total_macs, covered = decode_sections(env, c, b, n, sect0, sig_off + sig_len, nonce, dek, mac, specs)
    if pos is None:
        return
    env.prove(pos == n, "rom.no_trailing_bytes")
    env.prove(max_macs == total_macs, "rom.header_max_section_mac_count")
    env.prove(all(covered), "rom.every_byte_signed_or_maced")
    # ---- SPSDK's own parser returns the same content -----------------------------------------------------
    if any(not ok for lab, ok in env.trace if not lab.endswith("load_count_is_data_length")):   # (that one: recorded finding)
        return      # (the own parser is compared on files the ROM model accepts; garbage makes its exploration explode)
    back = IMG.BootImageV21.parse(data, kek=kek)
    env.prove(str(back.header.product_version) == c["pv"].upper(), "parse.product_version")
    env.prove(str(back.header.component_version) == c["cv"].upper(), "parse.component_version")
    env.prove(back.header.build_number == build, "parse.build_number")
    env.prove(len(back.boot_sections) == len(specs), "parse.all_sections_returned")
    sec0 = back.boot_sections[0]
    env.prove(len(sec0._commands) == len(specs[0][1]), "parse.first_section_command_count")
    for got, (cmd, hdr, payload) in zip(sec0._commands, specs[0][1]):
        env.prove_eq(got.export()[:16], cmd.export()[:16], "parse.command_equals_given")


def h_rom20(env, c):
    """SB 2.0, unsigned: header | HMAC(mac, header) | wrapped DEK+MAC | boot sections (same section format as 2.1)"""
    kek = env.bytes("kek", 32)
    dek, mac, nonce = env.bytes("dek", 32), env.bytes("mac", 32), env.bytes("nonce", 16)
    env.assume(u32le(nonce, 12) <= 0xFFFF0000)
    build = env.int("build", 0, 0xFFFFFFFF)
    sections, specs = [], []
    ci = 0
    for si, kinds in enumerate(c["sections"]):
        sp_ = []
        for k in kinds:
            sp_.append(make_cmd(env, k, ci))
            ci += 1
        uid = env.int(f"uid{si}", 0, 0xFFFFFFFF)
        for u0, _ in specs:
            env.assume(uid != u0)          # SB2.0 refuses two sections with one UID (documented error)
        sections.append(SEC.BootSectionV2(uid, *[x[0] for x in sp_], hmac_count=c["hmac"]))
        specs.append((uid, sp_))
    adv = IMG.SBV2xAdvancedParams(dek=dek, mac=mac, nonce=nonce, timestamp=TS, padding=bytes(8))
    img = IMG.BootImageV20(False, kek, *sections, product_version=c["pv"], component_version=c["cv"], build_number=build,
                           advanced_params=adv)
    data = img.export(padding=bytes(8))
    b = list(data)
    n = len(b)
    env.prove(n % 16 == 0, "rom20.file_is_block_multiple")
    env.prove(env.bytes_eq(b[0:16], nonce), "rom20.header_nonce")
    env.prove(bytes(b[20:24]) == b"STMP" and bytes(b[52:56]) == b"sgtl", "rom20.header_signatures")
    env.prove(b[24] == 2 and b[25] == 0, "rom20.header_version_2_0")
    env.prove(u16(b, 26) == 0x04, "rom20.header_flags_encrypted_unsigned")
    image_blocks, first_tag_block, first_sect_id = u32le(b, 28), u32le(b, 32), u32le(b, 36)
    hdr_blocks, keyblob_block, keyblob_cnt, max_macs = u16(b, 44), u16(b, 46), u16(b, 48), u16(b, 50)
    env.prove(env.And(hdr_blocks == 6, keyblob_block == 8, keyblob_cnt == 5), "rom20.header_layout_constants")

    def bcd_words(o):
        return [b[o + 4 * i] * 256 + b[o + 4 * i + 1] for i in range(3)]
    env.prove(bcd_words(64) == [int(x, 16) for x in c["pv"].split(".")], "rom20.header_product_version")
    env.prove(bcd_words(76) == [int(x, 16) for x in c["cv"].split(".")], "rom20.header_component_version")
    env.prove(u32le(b, 88) == build, "rom20.header_build_number")
    env.prove(env.bytes_eq(b[96:128], K.hmac(mac, b[0:96])), "rom20.header_mac_over_header")
    blob = b[128:208]
    keys = K.unwrap(kek, blob[:72])
    env.prove(env.And(env.bytes_eq(keys[:32], dek), env.bytes_eq(keys[32:], mac)), "rom20.keyblob_unwraps_to_dek_and_mac")
    sect0 = 208
    env.prove(image_blocks * 16 == n, "rom20.header_image_blocks")
    env.prove(first_tag_block * 16 == sect0, "rom20.header_first_boot_tag_block")
    env.prove(first_sect_id == specs[0][0], "rom20.header_first_boot_section_id")
    pos, total_macs, covered = decode_sections(env, c, b, n, sect0, sect0, nonce, dek, mac, specs, v21=False)
    if pos is None:
        return
    env.prove(pos == n, "rom20.no_trailing_bytes")
    env.prove(max_macs == total_macs, "rom20.header_max_section_mac_count")
    env.prove(all(covered), "rom20.every_byte_maced")
    if any(not ok for lab, ok in env.trace if not lab.endswith("load_count_is_data_length")):   # (that one: recorded finding)
        return
    back = IMG.BootImageV20.parse(data, kek=kek)
    env.prove(back.header.build_number == build, "parse20.build_number")
    env.prove(len(back._boot_sections) == len(specs), "parse20.all_sections_returned")
    for sec, (uid, sp_) in zip(back._boot_sections, specs):
        env.prove(sec.uid == uid and len(sec._commands) == len(sp_), "parse20.section_uid_and_command_count")
        for got, (cmd, hdr, payload) in zip(sec._commands, sp_):
            env.prove_eq(got.export()[:16], cmd.export()[:16], "parse20.command_equals_given")


def cases(tier):
    q = tier == "quick"
    cs = []
    for k in KINDS:
        cs.append({"id": f"cmd/{k}", "h": "cmd", "kind": k})
    base = dict(h="rom", hmac=1, sha=True, pv="1.2.3", cv="9.8.7", sig=256, chain=1, weight=8)
    for k in KINDS:
        cs.append(dict(base, id=f"rom/one/{k}", sections=[[k]]))
    for k in KINDS:
        cs.append(dict(base, id=f"rom/after_load/{k}", sections=[["load17", k]], sha=False))
    triples = [["erase_mem", "load32", "jump_sp"], ["fill2", "call", "reset"], ["prog8", "load1", "vercheck"],
               ["enable", "load16", "load15"], ["nop", "ks_to_nv", "jump"]]
    for t in triples:
        for hm in (1, 2, 5):
            cs.append(dict(base, id=f"rom/triple/{'+'.join(t)}/hmac={hm}", sections=[t], hmac=hm, sha=hm != 2))
    cs.append(dict(base, id="rom/two_sections", sections=[["erase", "load17"], ["load16", "reset"]], hmac=2))
    cs.append(dict(base, id="rom/two_sections_hmac5", sections=[["load32"], ["jump"]], hmac=5, sha=False))
    cs.append(dict(base, id="rom/sig512_chain2", sections=[["load16", "call"]], sig=512, chain=2))
    cs.append(dict(base, id="rom/sig384", sections=[["fill4"]], sig=384, sha=False))
    cs.append(dict(base, id="rom/versions", sections=[["reset"]], pv="999.0.1", cv="10.200.9999"))
    b20 = dict(base, h="rom20")
    for k in KINDS:
        cs.append(dict(b20, id=f"rom20/one/{k}", sections=[[k]]))
    for t in triples:
        for hm in (1, 2, 5):
            cs.append(dict(b20, id=f"rom20/triple/{'+'.join(t)}/hmac={hm}", sections=[t], hmac=hm))
    cs.append(dict(b20, id="rom20/two_sections", sections=[["erase", "load17"], ["load16", "reset"]], hmac=2))
    cs.append(dict(b20, id="rom20/two_sections_hmac5", sections=[["load32"], ["jump"]], hmac=5))
    cs.append(dict(b20, id="rom20/versions", sections=[["reset"]], pv="999.0.1", cv="10.200.9999"))
    if not q:
        import itertools
        for a, b_ in itertools.product(KINDS, repeat=2):
            cs.append(dict(base, id=f"rom/pair/{a}+{b_}", sections=[[a, b_]], hmac=2))
        cs.append(dict(base, id="rom/three_sections", sections=[["load1"], ["erase"], ["jump_sp", "reset"]], hmac=3))
    return cs


ENV = None


def run(env, case):
    global ENV
    ENV = env
    globals()["h_" + case["h"]](env, case)

"""C20 (number grammar) - value_to_int on strings: a string is accepted exactly when it matches the documented grammar
(decimal, 0x / 0b / 0o prefixes, underscores between digits, up to three u / l suffix letters, surrounding white space,
either letter case) and then has its mathematical value; everything else is rejected with SPSDKError (or yields the
default).  The characters of the string are solver variables; the regular expression is the one the real code passes to
re.match at run time, executed by a backtracking matcher with CPython's priority order."""
PROPERTY = "C20"
NAME = "c20_numgrammar"
LOGIC = "bv"
ENCODES = ["spsdk.utils.misc.value_to_int (str branch: strip, lower, re.match pattern, base table, int(number, base))",
           "spsdk.utils.misc.value_to_bool (str branch)"]
BOUNDS = {
    "quick": "every string of length 0..5 over the alphabet  0 1 2 7 8 9 a f g b o x u l _ - + space X B  (20 symbols; one "
             "solver variable per character)",
    "thorough": "length 0..7 over the same alphabet",
}
OUTSIDE = ("characters outside the alphabet (each symbol stands for its class: binary / octal / decimal / hex digit, "
           "non-hex letter, prefix letters, suffix letters, underscore, sign, blank, upper case); strings longer than the "
           "bound; str.strip / str.lower / int() of CPython are modelled (symx.sstr; the models are validated against CPython "
           "on 50 000 random strings by tools/validate_sstr.py and on every replayed path)")
STUBS = ["re.match on a symbolic string -> symx.sstr.sym_match over CPython's own parse tree of the pattern",
         "int(str, base) -> symx.sstr.sym_int", "str.strip / str.lower -> symx.sstr.SymStr"]
MUST_REACH = ["num\\..*"]
OPTS = {"quick": {"case_timeout_s": 600, "max_paths": 200000}, "thorough": {"case_timeout_s": 3000, "max_paths": 3000000}}

ALPH = "0127 89afgboxul_-+XB".replace(" ", "") + " "


def setup(symbolic):
    global M, EX, SYM
    SYM = symbolic
    import spsdk.exceptions as EX
    import spsdk.utils.misc as M
    if symbolic:
        from symx.sstr import ReProxy
        M.re = ReProxy(M.re)


def mk_string(env, n):
    idx = [env.int(f"ch{i}", 0, len(ALPH) - 1) for i in range(n)]
    if env.symbolic:
        from symx.sstr import SymStr
        codes = []
        for v in idx:
            c = ord(ALPH[-1])
            for j in range(len(ALPH) - 2, -1, -1):
                c = env.If(v == j, ord(ALPH[j]), c)
            codes.append(c)
        return SymStr.make(codes), codes
    s = "".join(ALPH[i] for i in idx)
    return s, [ord(ch) for ch in s]


def ref_parse(env, codes):
    """the documented grammar, character by character: returns None (not a number) or the value"""
    t = env.is_true
    c = list(codes)
    blank = lambda x: env.Or(x == 32, x == 9, x == 10, x == 13)
    while c and t(blank(c[0])):
        c = c[1:]
    while c and t(blank(c[-1])):
        c = c[:-1]
    c = [env.If(env.And(x >= 65, x <= 90), x + 32, x) for x in c]       # letter case is irrelevant
    if not c:
        return None
    base = 10
    if len(c) >= 2 and t(c[0] == 48):
        for letter, b in ((98, 2), (111, 8), (120, 16)):
            if t(c[1] == letter):
                base = b
        if base != 10:
            c = c[2:]
    # suffix: up to three of u / l at the very end
    k = 0
    while k < 3 and len(c) - k > 0 and t(env.Or(c[len(c) - 1 - k] == 117, c[len(c) - 1 - k] == 108)):
        k += 1
    body = c[:len(c) - k]
    if not body:
        return None
    value = 0
    prev_us = True
    for x in body:
        if t(x == 95):
            if prev_us:
                return None
            prev_us = True
            continue
        isd = env.And(x >= 48, x <= 57)
        ish = env.And(x >= 97, x <= 102)
        if t(isd):
            d = x - 48
        elif t(ish):
            d = x - 87
        else:
            return None
        if not t(d < base):
            return None
        value = value * base + d
        prev_us = False
    if prev_us:
        return None
    return value


def h_num(env, c):
    s, codes = mk_string(env, c["n"])
    try:
        got = M.value_to_int(s)
        err = None
    except EX.SPSDKError:
        got, err = None, "spsdk"
    want = ref_parse(env, codes)
    if want is None:
        env.prove(err == "spsdk", "num.not_a_number_is_rejected_with_spsdk_error")
        # ... and yields the default when one is given
        env.prove(M.value_to_int(s, 12345) == 12345, "num.not_a_number_yields_the_default")
    else:
        env.prove(err is None, "num.number_of_the_documented_grammar_is_accepted")
        if err is None:
            env.prove(got == want, "num.accepted_number_has_its_mathematical_value")


def cases(tier):
    top = 5 if tier == "quick" else 7
    return [{"id": f"num/len={n}", "h": "num", "n": n, "weight": 6 ** n} for n in range(0, top + 1)]


def run(env, case):
    globals()["h_" + case["h"]](env, case)

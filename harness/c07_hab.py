"""C07 - HAB image (i.MX RT10xx/11xx): layout round trip, the CSF authenticates exactly the blocks it lists and they
cover IVT, boot data, DCD and the whole application, encryption inverts.  The container is built by the real
HabContainer.load_from_config from the repository's own BD configurations (options, CSF command sets, certificates); the
APPLICATION is replaced by one of chosen length whose head and tail are symbolic bytes."""
import os

PROPERTY = "C07"
NAME = "c07_hab"
LOGIC = "bv"
ENCODES = [
    "spsdk.image.hab.hab_container.HabContainer.load_from_config", "spsdk.image.hab.hab_container.HabContainer.update_csf",
    "spsdk.image.hab.hab_container.HabContainer._get_signed_blocks", "spsdk.image.hab.hab_container.HabContainer._get_encrypted_blocks",
    "spsdk.image.hab.hab_container.HabContainer.image_info", "spsdk.image.hab.hab_container.HabContainer.export",
    "spsdk.image.hab.hab_container.HabContainer.export_padding", "spsdk.image.hab.hab_container.HabContainer.parse",
    "spsdk.image.hab.segments.IvtHabSegment.*", "spsdk.image.hab.segments.BdtHabSegment.*", "spsdk.image.hab.segments.DcdHabSegment.*",
    "spsdk.image.hab.segments.AppHabSegment.*", "spsdk.image.hab.segments.CsfHabSegment.load_from_config",
    "spsdk.image.hab.segments.CsfHabSegment.align_offset", "spsdk.image.hab.segments.CsfHabSegment.update_signature",
    "spsdk.image.hab.segments.CsfHabSegment.encrypt", "spsdk.image.hab.segments.CsfHabSegment.parse",
    "spsdk.image.hab.segments.CsfHabSegment.export", "spsdk.image.segments.SegIVT2.*", "spsdk.image.segments.SegBDT.*",
    "spsdk.image.segments.SegCSF.*", "spsdk.image.commands.CmdAuthData.*", "spsdk.image.commands.CmdInstallKey.*",
    "spsdk.image.secret.MAC.*", "spsdk.image.secret.Signature.*", "spsdk.image.images.BootImgRT.aead_nonce_len",
]
BOUNDS = {
    "quick": "6 configurations of the repository (plain RAM, authenticated XIP / SEMC NAND with DCD / flashloader with ECC keys, "
             "encrypted SEMC NAND with DCD / RAM) x application lengths {0x105, 0x1000, 0x2FF8, 0x2FF1} (incl. lengths that end "
             "1..15 bytes below a 4 KiB boundary and are not multiples of 16) x MAC lengths {16, 8, 4} for encrypted images; the "
             "first 64 and last 48 application bytes symbolic, the rest a fixed pattern; DEK 128/192/256 bit",
    "thorough": "as quick with application lengths 0x101..0x130 and every even MAC length",
}
OUTSIDE = ("that the CMS signatures verify under the installed keys and that the keys chain to the SRK table (real RSA/ECDSA, "
           "X.509 and CMS behind the cryptography API: cms_sign is replaced by a recorder in the symbolic run; the concrete run "
           "uses the real signer but has no independent CMS verifier) - decided instead: WHAT is signed; SRK table / fuse hash "
           "(C03 covers the RoT hash arithmetic for MBI families only); XMCD segments; start addresses and IVT offsets other "
           "than those of the six configurations; AES-CCM itself (ideal cipher stub)")
STUBS = ["spsdk.crypto.cms.cms_sign -> recorder returning a fixed-size blob (symbolic run); cms.sign_data itself is run on a "
         "stub provider (signdata/* cases) with the DER model of C08",
         "AES-CCM -> ideal invertible cipher + uninterpreted tag function of (key, nonce, data, tag length)",
         "BinaryImage.load_binary_image -> the application under test", "random nonce -> symbolic bytes"]
MUST_REACH = ["hab\\..*", "csf\\..*", "parse\\..*", "enc\\..*"]
OPTS = {"quick": {"case_timeout_s": 400, "max_paths": 400}, "thorough": {"case_timeout_s": 2400, "max_paths": 4000}}

DATA = "/repo/tests/nxpimage/data/hab/export"
CONFIGS = {
    "plain_ram": ("rt1170_RAM_unsigned", "config.bd"),
    "auth_xip": ("rt1050_xip_image_iar_authenticated", "config_pk.bd"),
    "auth_nand_dcd": ("rt1165_semcnand_authenticated", "config_pk.bd"),
    "auth_ecc": ("rt1173_flashloader_authenticated_ecc", "config_pk.bd"),
    "enc_nand_dcd": ("rt1165_semcnand_encrypted", "config_pk.bd"),
    "enc_ram": ("rt1160_RAM_encrypted", "config_pk.bd"),
}
SIGNED = []


def setup(symbolic):
    global HC, HCFG, HS, IM, EX, SYM, CMD
    SYM = symbolic
    import spsdk.exceptions as EX
    if symbolic:
        from symx import stubs, loader
        stubs.install_symmetric()
        import spsdk.crypto.hash as HM
        loader.patch_everywhere(HM.get_hash, stubs.get_hash)
        import spsdk.crypto.rng as RNG
        cnt = [0]

        def random_bytes(n):
            from symx.sbytes import var_bytes
            cnt[0] += 1
            return var_bytes(f"rng{cnt[0]}", n)
        loader.patch_everywhere(RNG.random_bytes, random_bytes)
        import spsdk.crypto.cms as CMS

        def cms_sign(zulu, data, certificate, signing_key, signature_provider):
            from symx.sbytes import SymBytes, items_of
            SIGNED.append(list(items_of(data)))
            tag = stubs.uf("CMS", [list(items_of(data))], 32)
            return SymBytes.make(tag + [0] * 368)
        loader.patch_everywhere(CMS.cms_sign, cms_sign)
    import spsdk.utils.images as IM
    import spsdk.image.hab.hab_config as HCFG
    import spsdk.image.hab.segments as HS
    import spsdk.image.commands as CMD
    import spsdk.image.hab.hab_container as HC
    global CMSM, KEYS, K8
    import spsdk.crypto.cms as CMSM
    import spsdk.crypto.keys as KEYS
    from harness import c08_keys as K8
    if symbolic:
        IM.BinaryImage.__str__ = lambda self: "<image>"
        IM.BinaryImage.draw = lambda self, *a, **k: ""
        K8.install_der_model(KEYS, K8.ENV)


def make_app(env, L, entry):
    """application of length L: vector table head (stack pointer, reset vector = entry point) and symbolic head / tail"""
    head = env.bytes("app_head", min(64, L))
    tail = env.bytes("app_tail", 48) if L >= 64 + 48 else b""
    mid = bytes((i * 7 + 3) & 0xFF for i in range(L - len(head) - len(tail)))
    if env.symbolic:
        from symx.sbytes import SymBytes
        items = list(head) + list(mid) + list(tail)
        items[4:8] = list(entry.to_bytes(4, "little"))
        return SymBytes.make(items)
    b = bytearray(bytes(head) + mid + bytes(tail))
    b[4:8] = entry.to_bytes(4, "little")
    return bytes(b)


def be32(env, b, off):
    return env.from_bytes(b[off: off + 4], "big")


def le32(env, b, off):
    return env.from_bytes(b[off: off + 4], "little")


def conc(v):
    return v if isinstance(v, int) else v.__index__()


def walk_csf(env, csf):
    """independent walk over the CSF command list: [(tag, offset, length)]"""
    out = []
    env.prove(csf[0] == 0xD4, "csf.header_tag")
    total = conc(env.from_bytes(csf[1:3], "big"))
    o = 4
    while o < total:
        tag = conc(csf[o])
        ln = conc(env.from_bytes(csf[o + 1: o + 3], "big"))
        if ln < 4:
            break
        out.append((tag, o, ln))
        o += ln
    return total, out


def h_build(env, c):
    d, bd = CONFIGS[c["cfg"]]
    d = os.path.join(DATA, d)
    src = [f for f in sorted(os.listdir(d)) if f.endswith((".s19", ".srec"))][0]
    cfg = HC.HabContainer.load_configuration(os.path.join(d, bd), external_files=[os.path.join(d, src)], search_paths=[d])
    opt = cfg["options"]
    flags, start, ivt_off, ils, entry = opt["flags"], opt["startAddress"], opt["ivtOffset"], opt["initialLoadSize"], opt["entryPointAddress"]
    L = c["L"]
    for sec in cfg["sections"]:
        for o in sec["options"]:
            if "Decrypt_MacBytes" in o and c.get("mac"):
                o["Decrypt_MacBytes"] = c["mac"]
            if "SecretKey_Length" in o and c.get("dek"):
                o["SecretKey_Length"] = c["dek"]
            if "SecretKey_ReuseDek" in o:
                o["SecretKey_ReuseDek"] = False
    app = make_app(env, L, entry)
    real_load = IM.BinaryImage.load_binary_image
    IM.BinaryImage.load_binary_image = staticmethod(lambda path, **k: IM.BinaryImage("app", binary=app))
    real_write = HS.write_file
    HS.write_file = lambda data, path, mode="w", encoding="utf-8": len(data)
    del SIGNED[:]
    try:
        hab = HC.HabContainer.load_from_config(cfg, search_paths=[d])
    finally:
        IM.BinaryImage.load_binary_image = real_load
        HS.write_file = real_write
    img = list(hab.export_padding())
    raw = hab.export()
    auth, encd = bool(flags & 8), (flags & 0xC) == 0xC
    dcd = None
    if opt.get("DCDFilePath"):
        with open(os.path.join(d, opt["DCDFilePath"].replace("\\", "/")), "rb") as f:
            dcd = f.read()
    app_l = list(app)
    app_pad = app_l + [0] * ((-L) % 16 if auth else 0)
    # ---- IVT / boot data describe the real positions ------------------------------------------------------------------
    i0 = ivt_off
    env.prove(env.And(img[i0] == 0xD1, img[i0 + 1] == 0x00, img[i0 + 2] == 0x20), "hab.ivt_header_at_ivt_offset")
    env.prove(le32(env, img, i0 + 4) == entry, "hab.ivt_entry_is_entry_point")
    env.prove(le32(env, img, i0 + 20) == start + ivt_off, "hab.ivt_self_pointer_is_its_address")
    env.prove(le32(env, img, i0 + 16) == start + ivt_off + 0x20, "hab.ivt_boot_data_pointer")
    if dcd:
        env.prove(le32(env, img, i0 + 12) == start + ivt_off + 0x40, "hab.ivt_dcd_pointer")
        env.prove(env.bytes_eq(img[i0 + 0x40: i0 + 0x40 + len(dcd)], dcd), "hab.dcd_bytes_at_its_pointer")
    else:
        env.prove(le32(env, img, i0 + 12) == 0, "hab.ivt_dcd_pointer")
    env.prove(le32(env, img, i0 + 0x20) == start, "hab.boot_data_start_is_start_address")
    env.prove(le32(env, img, i0 + 0x20 + 4) == len(img) + (0x200 if encd else 0), "hab.boot_data_length_is_real_image_length")
    csf_ptr = conc(le32(env, img, i0 + 24))
    if not auth:
        env.prove(csf_ptr == 0, "hab.ivt_csf_pointer")
    if not encd:
        env.prove(env.bytes_eq(img[ils: ils + L], app_l), "hab.application_bytes_at_initial_load_size")
    # ---- CSF ---------------------------------------------------------------------------------------------------------
    if auth:
        co = csf_ptr - start
        env.prove(co >= ils + len(app_pad) and co % 0x1000 == 0, "csf.placed_after_the_application_on_a_4k_boundary")
        env.prove(co + 0x2000 == len(img), "csf.is_the_last_segment_and_8k_long")
        csf = img[co: co + 0x2000]
        total, cmds = walk_csf(env, csf)
        auths = [(o, ln) for tag, o, ln in cmds if tag == 0xCA]
        env.prove(len(auths) >= 2, "csf.authenticate_csf_and_authenticate_data_present")
        # authenticate-data command(s) with blocks: the last 0xCA commands; the first one authenticates the CSF itself
        blocks = []
        mac_cmd = None
        for o, ln in auths[1:]:
            is_mac = conc(csf[conc(be32(env, csf, o + 8))]) == 0xAC
            blk = [(conc(be32(env, csf, o + 12 + 8 * k)), conc(be32(env, csf, o + 16 + 8 * k))) for k in range((ln - 12) // 8)]
            if is_mac:
                mac_cmd = (o, ln, blk)
            else:
                blocks += blk
        covered = [False] * len(img)
        for a, n in blocks:
            env.prove(start <= a and a - start + n <= co, "csf.signed_block_inside_the_image_in_front_of_the_csf")
            for i in range(a - start, min(a - start + n, len(img))):
                covered[i] = True
        need = list(range(i0, i0 + 0x2C)) + (list(range(i0 + 0x40, i0 + 0x40 + len(dcd))) if dcd else [])
        if not encd:
            need += list(range(ils, ils + len(app_pad)))
        env.prove(all(covered[i] for i in need), "csf.signed_blocks_cover_ivt_boot_data_dcd_and_whole_application")
        if env.symbolic:
            # what was handed to the signer for the data: exactly the bytes of the listed blocks, in order
            want = []
            for a, n in blocks:
                want += img[a - start: a - start + n]
            data_sigs = [s for s in SIGNED if len(s) == len(want)]
            env.prove(any(env.is_true(env.bytes_eq(s, want)) for s in data_sigs), "csf.signature_is_over_exactly_the_listed_blocks")
            csf_base = csf[:total]
            env.prove(any(len(s) == total and env.is_true(env.bytes_eq(s, csf_base)) for s in SIGNED),
                      "csf.csf_signature_is_over_header_and_commands")
        else:
            env.prove(True, "csf.signature_is_over_exactly_the_listed_blocks")
            env.prove(True, "csf.csf_signature_is_over_header_and_commands")
        # ---- encryption inverts --------------------------------------------------------------------------------------
        if encd:
            env.prove(mac_cmd is not None, "enc.decrypt_data_command_present")
            o, ln, blk = mac_cmd
            env.prove(blk == [(start + ils, len(app_pad))], "enc.decrypt_block_is_the_whole_application")
            mo = conc(be32(env, csf, o + 8))
            env.prove(csf[mo] == 0xAC, "enc.mac_structure_at_its_offset")
            nonce_len, mac_len = conc(csf[mo + 5]), conc(csf[mo + 7])
            env.prove(mac_len == (c.get("mac") or 16), "enc.mac_length_as_configured")
            env.prove(nonce_len == (13 if len(app_pad) < 0x10000 else 12), "enc.nonce_length_from_data_size")
            nonce = csf[mo + 8: mo + 8 + nonce_len]
            mac = csf[mo + 8 + nonce_len: mo + 8 + nonce_len + mac_len]
            dek = hab.csf_segment.dek
            env.prove(len(dek) * 8 == (c.get("dek") or 256), "enc.dek_length_as_configured")
            ct = img[ils: ils + len(app_pad)]
            if env.symbolic:
                from symx import stubs
                pt = stubs.dec("AES-CCM", list(dek), list(nonce), ct)
                tag = stubs.uf("AES-CCM-TAG", [list(dek), list(nonce), [], pt, [mac_len]], mac_len)
                env.prove(env.bytes_eq(tag, mac), "enc.mac_verifies_for_its_length")
            else:
                from cryptography.hazmat.primitives.ciphers.aead import AESCCM
                try:
                    pt = list(AESCCM(bytes(dek), tag_length=mac_len).decrypt(bytes(nonce), bytes(ct) + bytes(mac), b""))
                    env.prove(True, "enc.mac_verifies_for_its_length")
                except Exception:
                    env.prove(False, "enc.mac_verifies_for_its_length")
                    pt = None
            if pt is not None:
                env.prove(env.bytes_eq(pt, app_pad), "enc.decryption_restores_the_application")
    # ---- parse back ---------------------------------------------------------------------------------------------------
    if encd:
        # the parser locates the application by the plausibility of its reset vector, which it cannot read from encrypted
        # bytes: parsing encrypted images is outside the claim
        return
    back = HC.HabContainer.parse(raw)
    env.prove(back.flags == (flags & 0xC), "parse.flags_detected")
    env.prove(back.start_address == start and back.ivt_offset == ivt_off, "parse.start_address_and_ivt_offset")
    env.prove(back.ivt_segment.segment.app_address == entry and back.ivt_segment.segment.csf_address == csf_ptr, "parse.ivt_fields")
    env.prove(back.bdt_segment.segment.app_length == hab.bdt_segment.segment.app_length, "parse.boot_data_length")
    if dcd:
        env.prove(back.dcd_segment is not None and bytes(back.dcd_segment.export()) == dcd, "parse.dcd_bytes")
    bapp = list(back.app_segment.binary)
    if not encd:
        env.prove(env.bytes_eq(bapp[:L], app_l), "parse.application_bytes")
    env.prove(back.app_segment.offset == ils - ivt_off, "parse.application_offset")
    env.prove_eq(back.export()[: len(raw) - (0x2000 if auth else 0)], raw[: len(raw) - (0x2000 if auth else 0)],
                 "parse.reexport_identical_in_front_of_the_csf")


def h_signdata(env, c):
    """cms.sign_data with a signature provider: a raw ECDSA signature r||s of every supported curve goes into the CMS as
    the strict DER encoding of the same (r, s); an RSA signature goes in unchanged"""
    K8.ENV[0] = env
    n = c["siglen"]
    raw = env.bytes("raw_signature", n)
    from spsdk.crypto.signature_provider import SignatureProvider

    class Prov(SignatureProvider):
        identifier = "c07"

        def sign(self, data):
            return raw

        def get_signature(self, data, encoding=None):
            return raw

        @property
        def signature_length(self):
            return n
    half = n // 2
    r_items, s_items = list(raw[:half]), list(raw[half:])
    if c["kind"] == "ecc":
        # full-width r and s (top bytes non-zero); shorter values are the subject of the recorded C08 finding
        env.assume(env.And(r_items[0] != 0, s_items[0] != 0))
    out = CMSM.sign_data(b"to be signed", None, Prov())
    if c["kind"] == "rsa":
        env.prove_eq(out, raw, "csf.rsa_signature_enters_the_cms_unchanged")
        return
    want = K8.model_encode(env, r_items, s_items)
    env.prove_eq(out, want if env.symbolic else bytes(want), "csf.ecdsa_signature_enters_the_cms_as_der_of_the_same_r_s")


def cases(tier):
    q = tier == "quick"
    cs = []
    for n, kind in ((64, "ecc"), (96, "ecc"), (132, "ecc"), (256, "rsa"), (384, "rsa"), (512, "rsa")):
        cs.append({"id": f"signdata/{kind}/siglen={n}", "h": "signdata", "siglen": n, "kind": kind})
    lens = (0x105, 0x1000, 0x2FF8, 0x2FF1) if q else tuple(range(0x101, 0x131)) + (0x1000, 0x2FF8, 0x2FF1)
    for name in CONFIGS:
        for L in lens:
            if name.startswith("enc"):
                for mac in ((16, 8, 4) if q else (4, 6, 8, 10, 12, 14, 16)):
                    for dek in (256, 128, 192):
                        if q and (dek != 256 and (mac != 16 or L != 0x105)):
                            continue
                        cs.append({"id": f"build/{name}/L={L:#x}/mac={mac}/dek={dek}", "h": "build", "cfg": name, "L": L, "mac": mac,
                                   "dek": dek, "weight": 3})
            else:
                cs.append({"id": f"build/{name}/L={L:#x}", "h": "build", "cfg": name, "L": L, "weight": 2})
    return cs


def run(env, case):
    globals()["h_" + case["h"]](env, case)

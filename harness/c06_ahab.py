"""C06 - AHAB image: what is exported parses back to an equal object that SPSDK's own verifier accepts, and an
independent reading of the binary agrees: containers at their fixed offsets, every image array entry points at the bytes
of its image, carries their hash under the declared algorithm, images never overlap; a corrupted image byte is reported."""
PROPERTY = "C06"
NAME = "c06_ahab"
LOGIC = "bv"
ENCODES = [
    "spsdk.image.ahab.ahab_image.AHABImage.add_container", "spsdk.image.ahab.ahab_image.AHABImage.update_fields",
    "spsdk.image.ahab.ahab_image.AHABImage.__len__", "spsdk.image.ahab.ahab_image.AHABImage.image_info",
    "spsdk.image.ahab.ahab_image.AHABImage.export", "spsdk.image.ahab.ahab_image.AHABImage.parse",
    "spsdk.image.ahab.ahab_image.AHABImage.verify", "spsdk.image.ahab.ahab_container.AHABContainerBase.*",
    "spsdk.image.ahab.ahab_container.AHABContainer.update_fields", "spsdk.image.ahab.ahab_container.AHABContainer.export",
    "spsdk.image.ahab.ahab_container.AHABContainer.parse", "spsdk.image.ahab.ahab_container.AHABContainer.verify",
    "spsdk.image.ahab.ahab_container.AHABContainer.header_length", "spsdk.image.ahab.ahab_container.AHABContainer.get_container_offset",
    "spsdk.image.ahab.ahab_iae.ImageArrayEntry.__init__", "spsdk.image.ahab.ahab_iae.ImageArrayEntry.update_fields",
    "spsdk.image.ahab.ahab_iae.ImageArrayEntry.export", "spsdk.image.ahab.ahab_iae.ImageArrayEntry.parse",
    "spsdk.image.ahab.ahab_iae.ImageArrayEntry.verify", "spsdk.image.ahab.ahab_iae.ImageArrayEntry.create_flags",
    "spsdk.image.ahab.ahab_iae.ImageArrayEntry.create_meta", "spsdk.image.ahab.ahab_iae.ImageArrayEntry._get_valid_size",
    "spsdk.image.ahab.ahab_iae.ImageArrayEntry.get_valid_offset", "spsdk.image.ahab.ahab_sign_block.SignatureBlock.*",
    "spsdk.image.ahab.ahab_abstract_interfaces.HeaderContainer.*", "spsdk.utils.images.BinaryImage.export",
]
BOUNDS = {
    "quick": "families mimxrt1189, mimx9352, mimx8ulp, mimx9596 x target memories standard / nand_2k / nand_4k / "
             "serial_downloader; 1..2 containers with 1..2 images each; image lengths from {1, 512, 513, 1025} with symbolic "
             "bytes; load address and entry point symbolic 64 bit, boot flags 15 bit, start-cpu / mu-cpu / partition ids, "
             "fuse version 8 bit and sw version 16 bit symbolic; hash sha256/384/512; automatic offsets, one explicit offset, "
             "gap after image and image size alignment options; unsigned containers (SRK set 'none')",
    "thorough": "as quick with 3 containers x 3 images and every family that has the AHAB feature",
}
OUTSIDE = ("that ECDSA / RSA signatures are sound (the symbolic run models the signature as an uninterpreted function of "
           "key and data, the concrete run verifies with the real key); RSA and P-521 SRK tables, SRK set 'nxp', certificates "
           "(image keys), key blobs and encrypted images, container version 2 (PQC) - NOT decided; image sizes above the bounds; YAML configuration plumbing; hash collisions (the hash is an "
           "uninterpreted function, assumed collision free where a corruption must be noticed)")
STUBS = ["get_hash -> uninterpreted function per algorithm (both sides of every comparison use it)",
         "PublicKeyEcc inside ahab_srk -> stub key class (symbolic coordinates, signatures an uninterpreted function of key and "
         "data); signature provider -> the same function", "create_srk_hash_fuses_script (report text) -> constant"]
MUST_REACH = ["ahab\\..*", "iae\\..*", "parse\\..*", "corrupt\\..*", "sign\\..*"]
OPTS = {"quick": {"case_timeout_s": 400, "max_paths": 3000}, "thorough": {"case_timeout_s": 2400, "max_paths": 30000}}

HBITS = {"sha256": 256, "sha384": 384, "sha512": 512}


def setup(symbolic):
    global AI, AC, IAE, SB, AD, EX, IM, SYM
    SYM = symbolic
    import spsdk.exceptions as EX
    if symbolic:
        from symx import stubs, loader
        stubs.install_symmetric()
        import spsdk.crypto.hash as HM
        loader.patch_everywhere(HM.get_hash, stubs.get_hash)
    import spsdk.utils.images as IM
    import spsdk.image.ahab.ahab_data as AD
    import spsdk.image.ahab.ahab_iae as IAE
    import spsdk.image.ahab.ahab_sign_block as SB
    import spsdk.image.ahab.ahab_container as AC
    import spsdk.image.ahab.ahab_image as AI
    if symbolic:
        IM.BinaryImage.__str__ = lambda self: "<image>"
        IM.BinaryImage.draw = lambda self, *a, **k: ""
        # SRK records rebuild public keys from their parameters: the library constructors (point validation in C) are
        # replaced by the stub key classes
        from symx import keystubs
        import spsdk.image.ahab.ahab_srk as SRK
        cls = keystubs.classes()
        SRK.PublicKeyEcc = cls["StubEcc"]
        # report text only: the verifier renders the SRK hash as a blhost fuse script
        AC.AHABContainer.create_srk_hash_fuses_script = lambda self: "<fuse script>"


def H(env, data, alg):
    bits = HBITS[alg]
    if env.symbolic:
        from symx import stubs
        return stubs.uf(f"H-sha{bits}", [list(data)], bits // 8)
    import hashlib
    return list(hashlib.new(alg, bytes(data)).digest())


def u(env, b, off, n):
    return env.from_bytes(b[off: off + n], "little")


def build(env, c):
    fam, mem = c["family"], c["mem"]
    img = AI.AHABImage(fam, target_memory=mem)
    spec = []
    for ci, images in enumerate(c["shape"]):
        cont = AC.AHABContainer(chip_config=img.chip_config, flags=0,
                                fuse_version=env.int(f"c{ci}_fuse_version", 0, 255),
                                sw_version=env.int(f"c{ci}_sw_version", 0, 0xFFFF), container_offset=0x400 * ci)
        cont.signature_block = SB.SignatureBlock(chip_config=cont.chip_config)
        cspec = {"fuse": cont.fuse_version, "sw": cont.sw_version, "images": []}
        core = cont.chip_config.base.core_ids.tags()[c.get("core_ix", 0) % len(cont.chip_config.base.core_ids.tags())]
        types = IAE.ImageArrayEntry.get_image_types(cont.chip_config, core).tags()
        itype = types[c.get("type_ix", 0) % len(types)]
        for ii, ln in enumerate(images):
            data = env.bytes(f"c{ci}_i{ii}_data", ln)
            load = env.int(f"c{ci}_i{ii}_load", 0, (1 << 64) - 1)
            entry = env.int(f"c{ci}_i{ii}_entry", 0, (1 << 64) - 1)
            boot = env.int(f"c{ci}_i{ii}_bootflags", 0, (1 << 15) - 1)
            cpu = env.int(f"c{ci}_i{ii}_cpu", 0, 1023)
            mu = env.int(f"c{ci}_i{ii}_mu", 0, 1023)
            part = env.int(f"c{ci}_i{ii}_part", 0, 255)
            flags = IAE.ImageArrayEntry.create_flags(image_type=itype, core_id=core,
                                                    hash_type=AD.AHABSignHashAlgorithmV1.from_label(c["hash"].upper()),
                                                    boot_flags=boot)
            meta = IAE.ImageArrayEntry.create_meta(cpu, mu, part)
            kw = {}
            if c.get("explicit") == (ci, ii):
                kw["image_offset"] = c["explicit_offset"]
            if c.get("gap") == (ci, ii):
                kw["gap_after_image"] = 0x400
            if c.get("size_align") == (ci, ii):
                kw["image_size_alignment"] = 0x1000
            e = IAE.ImageArrayEntry(chip_config=cont.chip_config, image=data, load_address=load, entry_point=entry,
                                    flags=flags, image_meta_data=meta, **kw)
            cont.image_array.append(e)
            cspec["images"].append({"data": data, "load": load, "entry": entry, "boot": boot, "cpu": cpu, "mu": mu, "part": part,
                                    "core": core, "type": itype, "entry_obj": e})
        img.add_container(cont)
        spec.append(cspec)
    img.update_fields()
    for cont in img.ahab_containers:
        for e in cont.image_array:
            # an all-zero digest is an artefact of the uninterpreted hash, not a reachable value
            env.assume(env.Or(*[x != 0 for x in list(e.image_hash)[:HBITS[c["hash"]] // 8]]))
    return img, spec


def read_binary(env, b, c, spec, label="ahab"):
    """independent reading of the exported bytes"""
    hbits = HBITS[c["hash"]]
    placed = []
    for ci, cs in enumerate(spec):
        base = 0x400 * ci
        env.prove(env.And(b[base + 3] == 0x87, b[base] == 0x00), f"{label}.container_header_at_fixed_offset")
        length = u(env, b, base + 1, 2)
        nimg = len(cs["images"])
        env.prove(u(env, b, base + 4, 4) % 16 == 0, f"{label}.unsigned_container_has_srk_set_none")
        env.prove(u(env, b, base + 8, 2) == cs["sw"], f"{label}.sw_version_field")
        env.prove(b[base + 10] == cs["fuse"], f"{label}.fuse_version_field")
        env.prove(b[base + 11] == nimg, f"{label}.image_count_field")
        sig_off = u(env, b, base + 12, 2)
        env.prove(sig_off == 0x10 + 128 * nimg, f"{label}.signature_block_directly_after_image_array")
        so = 0x10 + 128 * nimg
        env.prove(env.And(b[base + so + 3] == 0x90, b[base + so] == 0x00), f"{label}.signature_block_header")
        sb_len = u(env, b, base + so + 1, 2)
        env.prove(length == so + sb_len, f"{label}.container_length_covers_header_array_and_signature_block")
        for ii, im in enumerate(cs["images"]):
            eo = base + 0x10 + 128 * ii
            off = u(env, b, eo, 4)
            size = u(env, b, eo + 4, 4)
            off_c = off if isinstance(off, int) else off.__index__()
            size_c = size if isinstance(size, int) else size.__index__()
            data = list(im["data"])
            env.prove(size_c >= len(data), "iae.size_covers_image")
            start = base + off_c
            env.prove(start + size_c <= len(b), "iae.image_inside_file")
            stored = b[start: start + size_c]
            env.prove(env.bytes_eq(stored[:len(data)], data), "iae.entry_points_at_the_image_bytes")
            env.prove(env.And(*[x == 0 for x in stored[len(data):]]), "iae.size_extension_is_zero_padding")
            env.prove(u(env, b, eo + 8, 8) == im["load"], "iae.load_address_field")
            env.prove(u(env, b, eo + 16, 8) == im["entry"], "iae.entry_point_field")
            flags = u(env, b, eo + 24, 4)
            htag = {"sha256": 0, "sha384": 1, "sha512": 2}[c["hash"]]
            env.prove(env.And(flags % 16 == im["type"], (flags // 16) % 16 == im["core"], (flags // 256) % 8 == htag,
                              (flags // 2048) % 2 == 0, (flags // 65536) % 32768 == im["boot"]), "iae.flags_decode_to_settings")
            meta = u(env, b, eo + 28, 4)
            env.prove(env.And(meta % 1024 == im["cpu"], (meta // 1024) % 1024 == im["mu"], (meta // (1 << 20)) % 256 == im["part"]),
                      "iae.metadata_decodes_to_settings")
            h = H(env, stored, c["hash"])
            env.prove(env.bytes_eq(b[eo + 32: eo + 32 + hbits // 8], h), "iae.hash_of_size_extended_image_under_declared_algorithm")
            env.prove(env.And(*[x == 0 for x in b[eo + 32 + hbits // 8: eo + 96]]), "iae.hash_field_zero_padded")
            env.prove(env.And(*[x == 0 for x in b[eo + 96: eo + 128]]), "iae.iv_zero_for_plain_image")
            placed.append((start, size_c))
    first = min(s for s, _ in placed)
    env.prove(first >= 0x400 * len(spec), f"{label}.images_after_the_container_area")
    for i in range(len(placed)):
        for j in range(i + 1, len(placed)):
            a, d = placed[i], placed[j]
            env.prove(a[0] + a[1] <= d[0] or d[0] + d[1] <= a[0], f"{label}.no_two_images_overlap")
    return placed


def h_build(env, c):
    img, spec = build(env, c)
    v = img.verify()
    env.prove(not v.has_errors, "ahab.own_verifier_accepts_what_was_built")
    try:
        out = img.export()
    except EX.SPSDKError:
        env.prove(False, "ahab.export_of_valid_image")
        return
    b = list(out)
    placed = read_binary(env, b, c, spec)
    # ---- parse back ------------------------------------------------------------------------------------------------
    back = AI.AHABImage(c["family"], target_memory=c["mem"])
    back.parse(out)
    env.prove(len(back.ahab_containers) == len(spec), "parse.container_count")
    for a, d in zip(back.ahab_containers, img.ahab_containers):
        env.prove(bool(a == d), "parse.container_equal_to_the_one_exported")
    env.prove(not back.verify().has_errors, "parse.own_verifier_accepts_parsed_image")
    env.prove_eq(back.export(), out, "parse.reexport_identical")
    # ---- a corrupted image byte is reported ---------------------------------------------------------------------------
    if c.get("corrupt") and env.symbolic:
        ci, ii = 0, 0
        data = spec[ci]["images"][ii]["data"]
        start, size = placed[0]
        k = 0 if len(data) == 1 else len(data) // 2
        from symx.sbytes import SymBytes
        bad = list(b)
        bad[start + k] = bad[start + k] ^ env.int("flip_mask", 1, 255)
        badb = SymBytes.make(bad)
        # collision freeness of the hash for these two inputs (uninterpreted function)
        h1, h2 = H(env, b[start: start + size], c["hash"]), H(env, bad[start: start + size], c["hash"])
        env.assume(env.Not(env.bytes_eq(h1, h2)))
        img2 = AI.AHABImage(c["family"], target_memory=c["mem"])
        try:
            img2.parse(badb)
            reported = img2.verify().has_errors
        except EX.SPSDKError:
            reported = True
        env.prove(reported, "corrupt.modified_image_byte_is_reported")
    elif c.get("corrupt"):
        env.prove(True, "corrupt.modified_image_byte_is_reported")


def _srk_keys(env, c):
    """4 SRK keys + the signature provider of the used one (stub keys symbolically, repository test keys concretely)"""
    bits = c["bits"]
    n = bits // 8
    curve = {256: "secp256r1", 384: "secp384r1"}[bits]
    used = c["used"]
    if env.symbolic:
        from symx import keystubs
        cls = keystubs.classes()
        keys = [cls["StubEcc"](env.int(f"srk{i}_x", 0, (1 << bits) - 1), env.int(f"srk{i}_y", 0, (1 << bits) - 1), curve) for i in range(4)]
        sp = cls["StubSP"](keys[used].ident(), 2 * n)
    else:
        from spsdk.crypto.keys import PublicKeyEcc
        from spsdk.crypto.signature_provider import get_signature_provider
        d = f"/repo/tests/_data/keys/ecc{bits}/"
        keys = [PublicKeyEcc.load(d + f"srk{i}_ecc{bits}.pub") for i in range(4)]
        sp = get_signature_provider(local_file_key=d + f"srk{used}_ecc{bits}.pem")
    return keys, sp, n


def h_signed(env, c):
    """signed container (SRK set OEM, ECDSA SRK table): SRK records carry the keys, the table hash is the hash of the
    exported table, the signature is the selected key's signature over exactly header + image array + signature block up to
    the signature, SPSDK's verifier accepts it and reports a modified authenticated byte"""
    import spsdk.image.ahab.ahab_srk as SRK
    import spsdk.image.ahab.ahab_signature as SIG
    keys, sp, n = _srk_keys(env, c)
    used = c["used"]
    mask = env.int("srk_revoke_mask", 0, 15)
    env.assume((mask // (1 << used)) % 2 == 0)            # the key used for signing is not revoked
    img = AI.AHABImage(c["family"], target_memory="standard")
    flags = 2 + used * 16 + mask * 256
    cont = AC.AHABContainer(chip_config=img.chip_config, flags=flags, fuse_version=env.int("fuse_version", 0, 255),
                            sw_version=env.int("sw_version", 0, 0xFFFF))
    srk = SRK.SRKTable(srk_records=[SRK.SRKRecord.create_from_key(k) for k in keys])
    cont.signature_block = SB.SignatureBlock(chip_config=cont.chip_config, srk_assets=srk,
                                             container_signature=SIG.ContainerSignature(signature_provider=sp))
    core = cont.chip_config.base.core_ids.tags()[0]
    itype = IAE.ImageArrayEntry.get_image_types(cont.chip_config, core).tags()[0]
    data = env.bytes("image", c["L"])
    e = IAE.ImageArrayEntry(chip_config=cont.chip_config, image=data, load_address=env.int("load", 0, (1 << 64) - 1),
                            entry_point=env.int("entry", 0, (1 << 64) - 1),
                            flags=IAE.ImageArrayEntry.create_flags(image_type=itype, core_id=core,
                                                                   hash_type=AD.AHABSignHashAlgorithmV1.SHA256),
                            image_meta_data=0)
    cont.image_array.append(e)
    img.add_container(cont)
    img.update_fields()
    env.assume(env.Or(*[x != 0 for x in list(e.image_hash)[:32]]))
    env.prove(not img.verify().has_errors, "sign.own_verifier_accepts_signed_container")
    out = img.export()
    b = list(out)
    # ---- independent reading ------------------------------------------------------------------------------------------
    f = u(env, b, 4, 4)
    env.prove(env.And(f % 4 == 2, (f // 16) % 4 == used, (f // 256) % 16 == mask), "sign.flags_select_srk_set_key_and_revocations")
    so = conc(u(env, b, 12, 2))
    env.prove(so == 0x10 + 128, "sign.signature_block_after_image_array")
    env.prove(env.And(b[so] == 0, b[so + 3] == 0x90), "sign.signature_block_header")
    sb_len = conc(u(env, b, so + 1, 2))
    cert_off, srk_off, sig_off, blob_off = (conc(u(env, b, so + 4 + 2 * k, 2)) for k in range(4))
    env.prove(cert_off == 0 and blob_off == 0, "sign.no_certificate_no_blob")
    env.prove(srk_off == 0x10, "sign.srk_table_directly_after_block_header")
    t = so + srk_off
    env.prove(env.And(b[t] == 0xD7, b[t + 3] == 0x42), "sign.srk_table_header")
    tl = conc(u(env, b, t + 1, 2))
    rec_len = 12 + 2 * n
    env.prove(tl == 4 + 4 * rec_len, "sign.srk_table_holds_four_records")
    for i, k in enumerate(keys):
        r = t + 4 + i * rec_len
        env.prove(env.And(b[r] == 0xE1, u(env, b, r + 1, 2) == rec_len, b[r + 3] == 0x27), "sign.srk_record_header_ecdsa")
        env.prove(env.And(b[r + 4] == {32: 0, 48: 1}[n], b[r + 5] == {32: 1, 48: 2}[n]), "sign.srk_record_hash_and_curve")
        env.prove(env.And(u(env, b, r + 8, 2) == n, u(env, b, r + 10, 2) == n), "sign.srk_record_parameter_lengths")
        env.prove(env.And(env.from_bytes(b[r + 12: r + 12 + n], "big") == k.x, env.from_bytes(b[r + 12 + n: r + 12 + 2 * n], "big") == k.y),
                  "sign.srk_record_carries_the_key_coordinates")
    env.prove(sig_off == (srk_off + tl + 7) // 8 * 8, "sign.signature_after_srk_table_on_8_byte_boundary")
    s0 = so + sig_off
    env.prove(env.And(b[s0] == 0, b[s0 + 3] == 0xD8, u(env, b, s0 + 1, 2) == 8 + 2 * n), "sign.signature_container_header")
    env.prove(sb_len == sig_off + 8 + 2 * n, "sign.signature_block_length")
    env.prove(u(env, b, 1, 2) == so + sb_len, "sign.container_length")
    sig = b[s0 + 8: s0 + 8 + 2 * n]
    signed = b[:s0]
    # a signature that equals the 00 01 02 .. placeholder pattern is an artefact of the uninterpreted signature function
    env.assume(env.Or(*[sig[i] != i for i in range(4)]))
    if env.symbolic:
        from symx import stubs
        env.prove(env.bytes_eq(sig, stubs.uf("SIGN", [keys[used].ident(), signed], 2 * n)),
                  "sign.signature_of_selected_srk_over_header_array_and_block_up_to_signature")
        table_hash = H(env, b[t: t + tl], "sha256")
    else:
        env.prove(keys[used].verify_signature(bytes(sig), bytes(signed)),
                  "sign.signature_of_selected_srk_over_header_array_and_block_up_to_signature")
        table_hash = H(env, b[t: t + tl], "sha256")
    env.prove_eq(srk.compute_srk_hash(), table_hash if env.symbolic else bytes(table_hash), "sign.srk_hash_is_hash_of_exported_table")
    # ---- parse back ------------------------------------------------------------------------------------------------------
    back = AI.AHABImage(c["family"], target_memory="standard")
    back.parse(out)
    env.prove(bool(back.ahab_containers[0] == cont), "sign.parsed_container_equal")
    env.prove(not back.verify().has_errors, "sign.own_verifier_accepts_parsed_signed_container")
    # ---- a modified authenticated byte is reported (symbolic run: signature function assumed injective on these inputs)
    if c["corrupt_at"] == "none":
        return
    pos = c["corrupt_at"]
    where = {"header_sw": 8, "iae_load": 0x10 + 8, "srk_x": t + 4 + used * rec_len + 12 + 3, "srk_flags": t + 4 + used * rec_len + 7, "header_fuse": 10}[pos]
    bad = list(b)
    bad[where] = bad[where] ^ env.int("flip_mask", 1, 255)
    if env.symbolic:
        from symx import stubs
        from symx.sbytes import SymBytes
        # (the signature function is assumed injective on the two inputs at hand)
        s1 = stubs.uf("SIGN", [keys[used].ident(), signed], 2 * n)
        s2 = stubs.uf("SIGN", [list(bad[t + 4 + used * rec_len + 12: t + 4 + used * rec_len + 12 + 2 * n]), bad[:s0]], 2 * n)
        env.assume(env.Not(env.bytes_eq(s1, s2)))
        badb = SymBytes.make(bad)
    else:
        badb = bytes(bad)
    img2 = AI.AHABImage(c["family"], target_memory="standard")
    try:
        img2.parse(badb)
        reported = img2.verify().has_errors
    except EX.SPSDKError:
        reported = True
    env.prove(reported, "sign.modified_authenticated_byte_is_reported")


def conc(v):
    return v if isinstance(v, int) else v.__index__()


def h_flags(env, c):
    """container flags word: SRK set, used SRK id and revoke mask are independent bit-fields (reference: bits 1:0, 5:4,
    11:8 of the flags word) and survive a header export / parse"""
    img = AI.AHABImage(c["family"], target_memory="standard")
    cont = AC.AHABContainer(chip_config=img.chip_config)
    k = env.int("used_srk_id", 0, 3)
    m = env.int("srk_revoke_mask", 0, 15)
    cont.set_flags(srk_set=c["srk_set"], used_srk_id=k, srk_revoke_mask=m)
    tag = {"none": 0, "nxp": 1, "oem": 2}[c["srk_set"]]
    f = cont.flags
    env.prove(env.And(f % 4 == tag, (f // 16) % 4 == k, (f // 256) % 16 == m), "ahab.flags_word_encodes_srk_set_used_id_and_revoke_mask")
    env.prove(env.And(cont.flag_used_srk_id == k, cont.flag_srk_revoke_keys == m), "ahab.flags_word_decodes_back")
    env.prove(cont.flag_srk_set.tag == tag, "ahab.flags_word_decodes_back")


def cases(tier):
    q = tier == "quick"
    cs = []
    fams = ("mimxrt1189", "mimx9352", "mimx8ulp", "mimx9596")
    mems = ("standard", "nand_2k", "nand_4k", "serial_downloader")
    shapes = [[[1]], [[513, 512]], [[1025], [1, 513]]] if q else [[[1]], [[513, 512]], [[1025], [1, 513]], [[512, 1, 1025], [513], [1, 1]]]
    n = 0
    for fam in fams:
        cfg = AI.AHABImage(fam).chip_config
        for mem in mems:
            for si, shape in enumerate(shapes):
                if len(shape) > cfg.containers_max_cnt or max(map(len, shape)) > cfg.images_max_cnt:
                    continue                # more containers / images than the family allows (refused by add_container)
                for hsh in ("sha256", "sha384", "sha512"):
                    n += 1
                    if q and (n % 3 != si % 3) and not (fam == "mimxrt1189" and mem == "standard"):
                        continue
                    cid = f"build/{fam}/{mem}/shape={'+'.join('x'.join(map(str, s)) for s in shape)}/{hsh}"
                    cs.append({"id": cid, "h": "build", "family": fam, "mem": mem, "shape": shape, "hash": hsh, "core_ix": n, "type_ix": n // 2,
                               "corrupt": si == 1, "weight": sum(map(sum, shape)) // 256 + 2})
            # option variants
            base = {"h": "build", "family": fam, "mem": mem, "shape": [[513, 512]], "hash": "sha256"}
            cs.append(dict(base, id=f"build/{fam}/{mem}/gap_after_first", gap=(0, 0)))
            cs.append(dict(base, id=f"build/{fam}/{mem}/size_alignment_first", size_align=(0, 0)))
            if mem != "serial_downloader":
                cs.append(dict(base, id=f"build/{fam}/{mem}/explicit_second_offset", explicit=(0, 1), explicit_offset=0x8000))
    for fam in ("mimxrt1189", "mimx9352"):
        for bits in (256, 384):
            for used in (0, 1, 2, 3):
                for pos in ("none", "header_sw", "header_fuse", "iae_load", "srk_x", "srk_flags"):
                    if q and (used + bits // 128 + len(pos)) % 4 != 0 and not (fam == "mimxrt1189" and bits == 256 and pos == "header_sw"):
                        continue
                    cs.append({"id": f"signed/{fam}/ecc{bits}/used={used}/corrupt={pos}", "h": "signed", "family": fam, "bits": bits,
                               "used": used, "L": 100, "corrupt_at": pos, "weight": 4})
    for fam in fams[:2]:
        for ss in ("none", "nxp", "oem"):
            cs.append({"id": f"flags/{fam}/{ss}", "h": "flags", "family": fam, "srk_set": ss})
    return cs


def run(env, case):
    case = dict(case)
    for k in ("gap", "size_align", "explicit"):
        if case.get(k) is not None:
            case[k] = tuple(case[k])
    globals()["h_" + case["h"]](env, case)

"""C06 - AHAB image: what is exported parses back to an equal object that SPSDK's own verifier accepts, and an
independent reading of the binary agrees: containers at their fixed offsets, every image array entry points at the bytes
of its image, carries their hash under the declared algorithm, images never overlap; a corrupted image byte is reported."""
PROPERTY = "C06"
NAME = "c06_ahab"
LOGIC = "bv"
ENCODES = [
    "spsdk.image.ahab.ahab_image.AHABImage.add_container", "spsdk.image.ahab.ahab_image.AHABImage.update_fields",
    "spsdk.image.ahab.ahab_image.AHABImage.__len__", "spsdk.image.ahab.ahab_image.AHABImage.image_info",
    "spsdk.image.ahab.ahab_image.AHABImage.export", "spsdk.image.ahab.ahab_image.AHABImage.parse",
    "spsdk.image.ahab.ahab_image.AHABImage.verify", "spsdk.image.ahab.ahab_container.AHABContainerBase.*",
    "spsdk.image.ahab.ahab_container.AHABContainer.update_fields", "spsdk.image.ahab.ahab_container.AHABContainer.export",
    "spsdk.image.ahab.ahab_container.AHABContainer.parse", "spsdk.image.ahab.ahab_container.AHABContainer.verify",
    "spsdk.image.ahab.ahab_container.AHABContainer.header_length", "spsdk.image.ahab.ahab_container.AHABContainer.get_container_offset",
    "spsdk.image.ahab.ahab_iae.ImageArrayEntry.__init__", "spsdk.image.ahab.ahab_iae.ImageArrayEntry.update_fields",
    "spsdk.image.ahab.ahab_iae.ImageArrayEntry.export", "spsdk.image.ahab.ahab_iae.ImageArrayEntry.parse",
    "spsdk.image.ahab.ahab_iae.ImageArrayEntry.verify", "spsdk.image.ahab.ahab_iae.ImageArrayEntry.create_flags",
    "spsdk.image.ahab.ahab_iae.ImageArrayEntry.create_meta", "spsdk.image.ahab.ahab_iae.ImageArrayEntry._get_valid_size",
    "spsdk.image.ahab.ahab_iae.ImageArrayEntry.get_valid_offset", "spsdk.image.ahab.ahab_sign_block.SignatureBlock.*",
    "spsdk.image.ahab.ahab_abstract_interfaces.HeaderContainer.*", "spsdk.utils.images.BinaryImage.export",
]
BOUNDS = {
    "quick": "families mimxrt1189, mimx9352, mimx8ulp, mimx9596 x target memories standard / nand_2k / nand_4k / "
             "serial_downloader; 1..2 containers with 1..2 images each; image lengths from {1, 512, 513, 1025} with symbolic "
             "bytes; load address and entry point symbolic 64 bit, boot flags 15 bit, start-cpu / mu-cpu / partition ids, "
             "fuse version 8 bit and sw version 16 bit symbolic; hash sha256/384/512; automatic offsets, one explicit offset, "
             "gap after image and image size alignment options; unsigned containers (SRK set 'none')",
    "thorough": "as quick with 3 containers x 3 images and every family that has the AHAB feature",
}
OUTSIDE = ("signed containers: SRK tables / records from real keys, container signatures, certificates and key blobs, "
           "encrypted images (real RSA / ECDSA / AES behind the cryptography API; the signing path needs key objects the "
           "stub layer of this round does not cover for AHAB) - the signature, SRK hash and decryption clauses of C06 are NOT "
           "decided; image sizes above the bounds; YAML configuration plumbing; hash collisions (the hash is an "
           "uninterpreted function, assumed collision free where a corruption must be noticed)")
STUBS = ["get_hash -> uninterpreted function per algorithm (both sides of every comparison use it)"]
MUST_REACH = ["ahab\\..*", "iae\\..*", "parse\\..*", "corrupt\\..*"]
OPTS = {"quick": {"case_timeout_s": 400, "max_paths": 3000}, "thorough": {"case_timeout_s": 2400, "max_paths": 30000}}

HBITS = {"sha256": 256, "sha384": 384, "sha512": 512}


def setup(symbolic):
    global AI, AC, IAE, SB, AD, EX, IM, SYM
    SYM = symbolic
    import spsdk.exceptions as EX
    if symbolic:
        from symx import stubs, loader
        stubs.install_symmetric()
        import spsdk.crypto.hash as HM
        loader.patch_everywhere(HM.get_hash, stubs.get_hash)
    import spsdk.utils.images as IM
    import spsdk.image.ahab.ahab_data as AD
    import spsdk.image.ahab.ahab_iae as IAE
    import spsdk.image.ahab.ahab_sign_block as SB
    import spsdk.image.ahab.ahab_container as AC
    import spsdk.image.ahab.ahab_image as AI
    if symbolic:
        IM.BinaryImage.__str__ = lambda self: "<image>"
        IM.BinaryImage.draw = lambda self, *a, **k: ""


def H(env, data, alg):
    bits = HBITS[alg]
    if env.symbolic:
        from symx import stubs
        return stubs.uf(f"H-sha{bits}", [list(data)], bits // 8)
    import hashlib
    return list(hashlib.new(alg, bytes(data)).digest())


def u(env, b, off, n):
    return env.from_bytes(b[off: off + n], "little")


def build(env, c):
    fam, mem = c["family"], c["mem"]
    img = AI.AHABImage(fam, target_memory=mem)
    spec = []
    for ci, images in enumerate(c["shape"]):
        cont = AC.AHABContainer(chip_config=img.chip_config, flags=0,
                                fuse_version=env.int(f"c{ci}_fuse_version", 0, 255),
                                sw_version=env.int(f"c{ci}_sw_version", 0, 0xFFFF), container_offset=0x400 * ci)
        cont.signature_block = SB.SignatureBlock(chip_config=cont.chip_config)
        cspec = {"fuse": cont.fuse_version, "sw": cont.sw_version, "images": []}
        core = cont.chip_config.base.core_ids.tags()[c.get("core_ix", 0) % len(cont.chip_config.base.core_ids.tags())]
        types = IAE.ImageArrayEntry.get_image_types(cont.chip_config, core).tags()
        itype = types[c.get("type_ix", 0) % len(types)]
        for ii, ln in enumerate(images):
            data = env.bytes(f"c{ci}_i{ii}_data", ln)
            load = env.int(f"c{ci}_i{ii}_load", 0, (1 << 64) - 1)
            entry = env.int(f"c{ci}_i{ii}_entry", 0, (1 << 64) - 1)
            boot = env.int(f"c{ci}_i{ii}_bootflags", 0, (1 << 15) - 1)
            cpu = env.int(f"c{ci}_i{ii}_cpu", 0, 1023)
            mu = env.int(f"c{ci}_i{ii}_mu", 0, 1023)
            part = env.int(f"c{ci}_i{ii}_part", 0, 255)
            flags = IAE.ImageArrayEntry.create_flags(image_type=itype, core_id=core,
                                                    hash_type=AD.AHABSignHashAlgorithmV1.from_label(c["hash"].upper()),
                                                    boot_flags=boot)
            meta = IAE.ImageArrayEntry.create_meta(cpu, mu, part)
            kw = {}
            if c.get("explicit") == (ci, ii):
                kw["image_offset"] = c["explicit_offset"]
            if c.get("gap") == (ci, ii):
                kw["gap_after_image"] = 0x400
            if c.get("size_align") == (ci, ii):
                kw["image_size_alignment"] = 0x1000
            e = IAE.ImageArrayEntry(chip_config=cont.chip_config, image=data, load_address=load, entry_point=entry,
                                    flags=flags, image_meta_data=meta, **kw)
            cont.image_array.append(e)
            cspec["images"].append({"data": data, "load": load, "entry": entry, "boot": boot, "cpu": cpu, "mu": mu, "part": part,
                                    "core": core, "type": itype, "entry_obj": e})
        img.add_container(cont)
        spec.append(cspec)
    img.update_fields()
    for cont in img.ahab_containers:
        for e in cont.image_array:
            # an all-zero digest is an artefact of the uninterpreted hash, not a reachable value
            env.assume(env.Or(*[x != 0 for x in list(e.image_hash)[:HBITS[c["hash"]] // 8]]))
    return img, spec


def read_binary(env, b, c, spec, label="ahab"):
    """independent reading of the exported bytes"""
    hbits = HBITS[c["hash"]]
    placed = []
    for ci, cs in enumerate(spec):
        base = 0x400 * ci
        env.prove(env.And(b[base + 3] == 0x87, b[base] == 0x00), f"{label}.container_header_at_fixed_offset")
        length = u(env, b, base + 1, 2)
        nimg = len(cs["images"])
        env.prove(u(env, b, base + 4, 4) % 16 == 0, f"{label}.unsigned_container_has_srk_set_none")
        env.prove(u(env, b, base + 8, 2) == cs["sw"], f"{label}.sw_version_field")
        env.prove(b[base + 10] == cs["fuse"], f"{label}.fuse_version_field")
        env.prove(b[base + 11] == nimg, f"{label}.image_count_field")
        sig_off = u(env, b, base + 12, 2)
        env.prove(sig_off == 0x10 + 128 * nimg, f"{label}.signature_block_directly_after_image_array")
        so = 0x10 + 128 * nimg
        env.prove(env.And(b[base + so + 3] == 0x90, b[base + so] == 0x00), f"{label}.signature_block_header")
        sb_len = u(env, b, base + so + 1, 2)
        env.prove(length == so + sb_len, f"{label}.container_length_covers_header_array_and_signature_block")
        for ii, im in enumerate(cs["images"]):
            eo = base + 0x10 + 128 * ii
            off = u(env, b, eo, 4)
            size = u(env, b, eo + 4, 4)
            off_c = off if isinstance(off, int) else off.__index__()
            size_c = size if isinstance(size, int) else size.__index__()
            data = list(im["data"])
            env.prove(size_c >= len(data), "iae.size_covers_image")
            start = base + off_c
            env.prove(start + size_c <= len(b), "iae.image_inside_file")
            stored = b[start: start + size_c]
            env.prove(env.bytes_eq(stored[:len(data)], data), "iae.entry_points_at_the_image_bytes")
            env.prove(env.And(*[x == 0 for x in stored[len(data):]]), "iae.size_extension_is_zero_padding")
            env.prove(u(env, b, eo + 8, 8) == im["load"], "iae.load_address_field")
            env.prove(u(env, b, eo + 16, 8) == im["entry"], "iae.entry_point_field")
            flags = u(env, b, eo + 24, 4)
            htag = {"sha256": 0, "sha384": 1, "sha512": 2}[c["hash"]]
            env.prove(env.And(flags % 16 == im["type"], (flags // 16) % 16 == im["core"], (flags // 256) % 8 == htag,
                              (flags // 2048) % 2 == 0, (flags // 65536) % 32768 == im["boot"]), "iae.flags_decode_to_settings")
            meta = u(env, b, eo + 28, 4)
            env.prove(env.And(meta % 1024 == im["cpu"], (meta // 1024) % 1024 == im["mu"], (meta // (1 << 20)) % 256 == im["part"]),
                      "iae.metadata_decodes_to_settings")
            h = H(env, stored, c["hash"])
            env.prove(env.bytes_eq(b[eo + 32: eo + 32 + hbits // 8], h), "iae.hash_of_size_extended_image_under_declared_algorithm")
            env.prove(env.And(*[x == 0 for x in b[eo + 32 + hbits // 8: eo + 96]]), "iae.hash_field_zero_padded")
            env.prove(env.And(*[x == 0 for x in b[eo + 96: eo + 128]]), "iae.iv_zero_for_plain_image")
            placed.append((start, size_c))
    first = min(s for s, _ in placed)
    env.prove(first >= 0x400 * len(spec), f"{label}.images_after_the_container_area")
    for i in range(len(placed)):
        for j in range(i + 1, len(placed)):
            a, d = placed[i], placed[j]
            env.prove(a[0] + a[1] <= d[0] or d[0] + d[1] <= a[0], f"{label}.no_two_images_overlap")
    return placed


def h_build(env, c):
    img, spec = build(env, c)
    v = img.verify()
    env.prove(not v.has_errors, "ahab.own_verifier_accepts_what_was_built")
    try:
        out = img.export()
    except EX.SPSDKError:
        env.prove(False, "ahab.export_of_valid_image")
        return
    b = list(out)
    placed = read_binary(env, b, c, spec)
    # ---- parse back ------------------------------------------------------------------------------------------------
    back = AI.AHABImage(c["family"], target_memory=c["mem"])
    back.parse(out)
    env.prove(len(back.ahab_containers) == len(spec), "parse.container_count")
    for a, d in zip(back.ahab_containers, img.ahab_containers):
        env.prove(bool(a == d), "parse.container_equal_to_the_one_exported")
    env.prove(not back.verify().has_errors, "parse.own_verifier_accepts_parsed_image")
    env.prove_eq(back.export(), out, "parse.reexport_identical")
    # ---- a corrupted image byte is reported ---------------------------------------------------------------------------
    if c.get("corrupt") and env.symbolic:
        ci, ii = 0, 0
        data = spec[ci]["images"][ii]["data"]
        start, size = placed[0]
        k = 0 if len(data) == 1 else len(data) // 2
        from symx.sbytes import SymBytes
        bad = list(b)
        bad[start + k] = bad[start + k] ^ env.int("flip_mask", 1, 255)
        badb = SymBytes.make(bad)
        # collision freeness of the hash for these two inputs (uninterpreted function)
        h1, h2 = H(env, b[start: start + size], c["hash"]), H(env, bad[start: start + size], c["hash"])
        env.assume(env.Not(env.bytes_eq(h1, h2)))
        img2 = AI.AHABImage(c["family"], target_memory=c["mem"])
        try:
            img2.parse(badb)
            reported = img2.verify().has_errors
        except EX.SPSDKError:
            reported = True
        env.prove(reported, "corrupt.modified_image_byte_is_reported")
    elif c.get("corrupt"):
        env.prove(True, "corrupt.modified_image_byte_is_reported")


def h_flags(env, c):
    """container flags word: SRK set, used SRK id and revoke mask are independent bit-fields (reference: bits 1:0, 5:4,
    11:8 of the flags word) and survive a header export / parse"""
    img = AI.AHABImage(c["family"], target_memory="standard")
    cont = AC.AHABContainer(chip_config=img.chip_config)
    k = env.int("used_srk_id", 0, 3)
    m = env.int("srk_revoke_mask", 0, 15)
    cont.set_flags(srk_set=c["srk_set"], used_srk_id=k, srk_revoke_mask=m)
    tag = {"none": 0, "nxp": 1, "oem": 2}[c["srk_set"]]
    f = cont.flags
    env.prove(env.And(f % 4 == tag, (f // 16) % 4 == k, (f // 256) % 16 == m), "ahab.flags_word_encodes_srk_set_used_id_and_revoke_mask")
    env.prove(env.And(cont.flag_used_srk_id == k, cont.flag_srk_revoke_keys == m), "ahab.flags_word_decodes_back")
    env.prove(cont.flag_srk_set.tag == tag, "ahab.flags_word_decodes_back")


def cases(tier):
    q = tier == "quick"
    cs = []
    fams = ("mimxrt1189", "mimx9352", "mimx8ulp", "mimx9596")
    mems = ("standard", "nand_2k", "nand_4k", "serial_downloader")
    shapes = [[[1]], [[513, 512]], [[1025], [1, 513]]] if q else [[[1]], [[513, 512]], [[1025], [1, 513]], [[512, 1, 1025], [513], [1, 1]]]
    n = 0
    for fam in fams:
        for mem in mems:
            for si, shape in enumerate(shapes):
                for hsh in ("sha256", "sha384", "sha512"):
                    n += 1
                    if q and (n % 3 != si % 3) and not (fam == "mimxrt1189" and mem == "standard"):
                        continue
                    cid = f"build/{fam}/{mem}/shape={'+'.join('x'.join(map(str, s)) for s in shape)}/{hsh}"
                    cs.append({"id": cid, "h": "build", "family": fam, "mem": mem, "shape": shape, "hash": hsh, "core_ix": n, "type_ix": n // 2,
                               "corrupt": si == 1, "weight": sum(map(sum, shape)) // 256 + 2})
            # option variants
            base = {"h": "build", "family": fam, "mem": mem, "shape": [[513, 512]], "hash": "sha256"}
            cs.append(dict(base, id=f"build/{fam}/{mem}/gap_after_first", gap=(0, 0)))
            cs.append(dict(base, id=f"build/{fam}/{mem}/size_alignment_first", size_align=(0, 0)))
            if mem != "serial_downloader":
                cs.append(dict(base, id=f"build/{fam}/{mem}/explicit_second_offset", explicit=(0, 1), explicit_offset=0x8000))
    for fam in fams[:2]:
        for ss in ("none", "nxp", "oem"):
            cs.append({"id": f"flags/{fam}/{ss}", "h": "flags", "family": fam, "srk_set": ss})
    return cs


def run(env, case):
    case = dict(case)
    for k in ("gap", "size_align", "explicit"):
        if case.get(k) is not None:
            case[k] = tuple(case[k])
    globals()["h_" + case["h"]](env, case)

"""C16 - BinaryImage: validation truthfulness and length (unbounded Int back end)."""
PROPERTY = "C16"
NAME = "c16_binimage"
LOGIC = "int"
ENCODES = ["spsdk.utils.images.BinaryImage.__init__", "spsdk.utils.images.BinaryImage.__len__",
           "spsdk.utils.images.BinaryImage.validate", "spsdk.utils.images.BinaryImage.add_image",
           "spsdk.utils.images.BinaryImage.append_image", "spsdk.utils.images.BinaryImage.update_offsets",
           "spsdk.utils.images.BinaryImage.min_offset", "spsdk.utils.images.BinaryImage.absolute_address",
           "spsdk.utils.images.BinaryImage.size", "spsdk.utils.misc.align"]
BOUNDS = {
    "quick": "tree shapes: root with 1..3 children, optionally one grandchild level (depth 1..3); every offset an "
             "arbitrary integer, every explicit size an arbitrary non-negative integer, leaves >= 1 byte; alignments "
             "from {1,4,16} per node (enumerated) - all integers unbounded (z3 Int)",
    "thorough": "as quick plus root with 4 children, depth 4 chains and alignments {1, 2, 4, 8, 16, 64} (a symbolic alignment makes the obligations non-linear integer arithmetic on which z3 answers unknown)",
}
OUTSIDE = ("zero-length sub-images in the overlap clause; BIN/HEX/S19 save/load (bincopy text formats, C code); "
           "aligned_start/aligned_length (float division)")
STUBS = ["BinaryImage.__str__ -> constant (only used to format the overlap error message)"]
MUST_REACH = ["validate\\..*", "len\\..*", "add\\..*", "upd\\..*"]
OPTS = {"quick": {"case_timeout_s": 600, "query_timeout_ms": 30000},
        "thorough": {"case_timeout_s": 1500, "query_timeout_ms": 120000, "max_paths": 100000}}


def setup(symbolic):
    global IM, EX
    import spsdk.utils.images as IM
    import spsdk.exceptions as EX
    if symbolic:
        # message formatting is not the subject: the overlap error renders both images (sizes through floats)
        IM.BinaryImage.__str__ = lambda self: "<image>"


SHAPES_Q = {
    "r1": [[]], "r2": [[], []], "r3": [[], [], []],
    "r1_1": [[[]]], "r2_1": [[[]], []], "r2_2": [[[], []], []], "r1_1_1": [[[[]]]],
}
SHAPES_T = dict(SHAPES_Q, r4=[[], [], [], []], r3_1=[[[]], [[]], []], r1_1_1_1=[[[[[]]]]])


def cases(tier):
    cs = []
    shapes = SHAPES_Q if tier == "quick" else SHAPES_T
    for name, sh in shapes.items():
        for al in ((1, 4) if tier == "quick" else (1, 2, 4, 8, 16, 64)):
            cs.append({"id": f"validate/{name}/al={al}", "h": "validate", "shape": sh, "al": al, "weight": 3})
    for k in (1, 2, 3):
        cs.append({"id": f"add/{k}", "h": "add", "k": k})
        cs.append({"id": f"update_offsets/{k}", "h": "upd", "k": k})
    return cs


class Node:
    pass


def _build(env, shape, path, al, parent=None):
    """Create the real BinaryImage tree and, in parallel, plain reference records."""
    n = Node()
    n.children = []
    n.offset = env.int(f"off{path}", None, None)
    leaf = not shape
    if leaf:
        n.size = env.int(f"size{path}", 1, None)
    else:
        n.size = env.int(f"size{path}", 0, None)
    if al == "sym":
        n.al = 1 if leaf else env.int(f"al{path}", 1, 64)
    else:
        n.al = 1 if leaf else al
    n.img = IM.BinaryImage(name=f"n{path}", size=n.size, offset=n.offset, alignment=n.al)
    if parent is not None:
        parent.img.add_image(n.img)
    for i, sub in enumerate(shape):
        n.children.append(_build(env, sub, f"{path}_{i}", al, n))
    return n


def _ref_align(env, x, a):
    # smallest multiple of a that is >= x  (x >= 0, a >= 1)
    return (x + a - 1) // a * a


def _ref_len(env, n):
    own = _ref_align(env, n.size, n.al)
    if not n.children:
        return own
    m = 0
    for c in n.children:
        e = c.offset + _ref_len(env, c)
        m = env.If(e > m, e, m)
    derived = _ref_align(env, env.If(m > 0, m, 0), n.al)
    return env.If(own != 0, own, derived)


def _ref_invalid(env, n):
    """Independent interval predicate: some offset negative, a child sticks out, or siblings intersect."""
    bad = [n.offset < 0]
    ln = _ref_len(env, n)
    for c in n.children:
        bad.append(_ref_invalid(env, c))
        bad.append(c.offset + _ref_len(env, c) > ln)
    for i, a in enumerate(n.children):
        for b in n.children[i + 1:]:
            la, lb = _ref_len(env, a), _ref_len(env, b)
            bad.append(env.And(a.offset < b.offset + lb, b.offset < a.offset + la))
    return env.Or(*bad)


def h_validate(env, c):
    root = _build(env, c["shape"], "r", c["al"])
    # a derived (size 0) inner node with all children at negative ends has length 0: exclude negative
    # child offsets from the *length* obligation only (validate reports them)
    try:
        root.img.validate()
        raised = False
    except (EX.SPSDKValueError, EX.SPSDKOverlapError):
        raised = True
    ref = _ref_invalid(env, root)
    env.prove(env.Iff(raised, ref), "validate.raises_iff_sticks_out_or_overlaps")
    if not raised:
        env.prove(env.len(root.img) == _ref_len(env, root), "len.matches_reference")
        env.prove(env.len(root.img) % root.al == 0, "len.aligned")
    env.observe("raised", raised)


def h_add(env, c):
    k = c["k"]
    root = IM.BinaryImage(name="root", size=0)
    offs = []
    for i in range(k + 1):
        o = env.int(f"o{i}", None, None)
        offs.append(o)
        root.add_image(IM.BinaryImage(name=f"c{i}", size=1, offset=o))
    subs = root.sub_images
    env.prove(len(subs) == k + 1, "add.count")
    for a, b in zip(subs, subs[1:]):
        env.prove(a.offset <= b.offset, "add.children_sorted_by_offset")
    for i in range(k + 1):
        env.prove(env.Or(*[s.offset == offs[i] for s in subs]), "add.every_child_present")
    # append lands at the current end
    end = env.len(root)
    extra = IM.BinaryImage(name="x", size=3)
    root.append_image(extra)
    env.prove(extra.offset == end, "add.append_at_end")
    env.prove(extra.parent is root, "add.parent_set")


def h_upd(env, c):
    k = c["k"]
    root = IM.BinaryImage(name="root", size=0, offset=env.int("ro", None, None))
    kids = []
    for i in range(k):
        ch = IM.BinaryImage(name=f"c{i}", size=env.int(f"s{i}", 1, None), offset=env.int(f"o{i}", None, None))
        root.add_image(ch)
        kids.append(ch)
    before = [ch.absolute_address for ch in kids]
    root.update_offsets()
    for ch, b in zip(kids, before):
        env.prove(ch.absolute_address == b, "upd.absolute_addresses_preserved")
    env.prove(env.Or(*[ch.offset == 0 for ch in kids]), "upd.first_child_at_zero")
    for ch in kids:
        env.prove(ch.offset >= 0, "upd.no_negative_child_offset")


def run(env, case):
    globals()["h_" + case["h"]](env, case)

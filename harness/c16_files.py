"""C16 - BinaryImage.save_binary_image / load_binary_image: same bytes at the same addresses (BIN, HEX, S19).

What SPSDK contributes to the HEX / S19 round trip is (a) which byte strings it hands to bincopy at which
addresses and in which order when saving, and (b) how it turns the segments bincopy returns into an image tree
when loading.  Both are executed symbolically on the real code.  bincopy itself (text rendering, record
check sums: binascii C code and string formatting) is replaced, in the symbolic run only, by a model with the
contract "a BinFile is a sparse memory; as_ihex()/as_srec() followed by add_file() restores the same memory and
the same execution start address; segments are the maximal runs of consecutive addresses".  The concrete run of
the same harness uses the real bincopy and real files, so the contract is validated against bincopy on every
sampled path and every counterexample.
"""
import os
import sys
import types

PROPERTY = "C16"
NAME = "c16_files"
LOGIC = "bv"
ENCODES = ["spsdk.utils.images.BinaryImage.save_binary_image", "spsdk.utils.images.BinaryImage.load_binary_image",
           "spsdk.utils.images.BinaryImage.update_offsets", "spsdk.utils.images.BinaryImage.min_offset",
           "spsdk.utils.images.BinaryImage.absolute_address", "spsdk.utils.images.BinaryImage.export",
           "spsdk.utils.images.BinaryImage.__len__", "spsdk.utils.images.BinaryImage.add_image",
           "spsdk.utils.misc.BinaryPattern.get_block", "spsdk.utils.misc.align_block"]
BOUNDS = {
    "quick": "formats BIN, HEX, S19; root at a symbolic 32-bit base address (root offset), explicit size 0..6 symbolic, "
             "alignment in {1,4}, pattern in {none, zeros, ones, 0xA55A}, optional own binary of 1 symbolic byte, 1 child "
             "(1..2 symbolic bytes, symbolic offset 0..5) or 2 children (offsets 0..3); one child may carry an explicit "
             "size 0..4, a 2-byte number pattern and alignment 2 of its own; symbolic 32-bit execution start address or "
             "none; only layouts accepted by validate() and lying below 2^32; symbolic load offset 0..0xFFFF",
    "thorough": "as quick with offsets 0..6, root size 0..10, 1..3 bytes per child, alignments {1,4,8}, start address both ways",
}
OUTSIDE = ("bincopy's text rendering and parsing (contract stub, validated against the real bincopy in the concrete "
           "twin run); ELF input; BIN files whose content happens to be valid S-record / HEX / TI-TXT / VMEM text "
           "(assumed away: first byte outside the printable ASCII range) ; images above 2^32; 'rand'/'inc' patterns")
STUBS = ["bincopy.BinFile -> sparse-memory model (symbolic run only)", "write_file/find_file/open -> in-memory files (symbolic run only)"]
MUST_REACH = ["files\\.hex\\..*", "files\\.s19\\..*", "files\\.bin\\..*"]
OPTS = {"quick": {"case_timeout_s": 600, "max_paths": 60000}, "thorough": {"case_timeout_s": 2400, "max_paths": 400000}}

PATTERNS = {"none": None, "zeros": "zeros", "ones": "ones", "num": "0xA55A"}
FS = {}
SYMBOLIC = False


# ---------------------------------------------------------------------------------- bincopy contract model
class _Segment:
    def __init__(self, address, data):
        self.address = address
        self.data = data


class _Saved:
    """What as_ihex()/as_srec() return in the model: the memory they render."""

    def __init__(self, fmt, base, mem, start):
        self.fmt, self.base, self.mem, self.start = fmt, base, dict(mem), start


class _Error(Exception):
    pass


class _Unsupported(_Error):
    pass


class _BinFile:
    def __init__(self):
        self.base = None          # address term of the first write
        self.mem = {}             # concrete delta to base -> byte term
        self.execution_start_address = None

    def add_binary(self, data, address=0, overwrite=False):
        if self.base is None:
            self.base = address
            delta = 0
        else:
            d = address - self.base
            delta = d if isinstance(d, int) else d.__index__()   # complete case split on the (small) distance
        for i in range(len(data)):
            if not overwrite and (delta + i) in self.mem:
                raise _Error("overlap")
            self.mem[delta + i] = data[i]

    def _render(self, fmt):
        return _Saved(fmt, self.base, self.mem, self.execution_start_address)

    def as_ihex(self, *a, **k):
        return self._render("HEX")

    def as_srec(self, *a, **k):
        return self._render("S19")

    def add_file(self, path, overwrite=False):
        content = FS[path]
        if not isinstance(content, _Saved):
            raise _Unsupported()
        self.base, self.mem, self.execution_start_address = content.base, dict(content.mem), content.start

    def add_binary_file(self, path, address=0, overwrite=False):
        self.add_binary(FS[path], address, overwrite)

    def add_elf_file(self, path):
        raise _Error("ELF is outside the model")

    @property
    def segments(self):
        from symx.sbytes import SymBytes
        out, run, start, prev = [], [], None, None
        for d in sorted(self.mem):
            if prev is not None and d != prev + 1:
                out.append(_Segment(self.base + start, SymBytes.make(run, mutable=True)))
                run, start = [], None
            if start is None:
                start = d
            run.append(self.mem[d])
            prev = d
        if run:
            out.append(_Segment(self.base + start, SymBytes.make(run, mutable=True)))
        return out


class _FakeFile:
    def __init__(self, data):
        self.data = data

    def read(self, n=None):
        return self.data[:n] if n is not None else self.data

    def __enter__(self):
        return self

    def __exit__(self, *a):
        return False


def _fake_open(path, mode="r", *a, **k):
    c = FS[path]
    if isinstance(c, _Saved):
        return _FakeFile(b":020" if c.fmt == "HEX" else b"S315")
    return _FakeFile(c)


def _fake_write(data, path, mode="w", encoding=None):
    FS[path] = data
    return len(data) if not isinstance(data, _Saved) else 0


def setup(symbolic):
    global IM, EX, M, SYMBOLIC
    SYMBOLIC = symbolic
    if symbolic:
        fake = types.ModuleType("bincopy")
        fake.BinFile, fake._Segment, fake.Error, fake.UnsupportedFileFormatError = _BinFile, _Segment, _Error, _Unsupported
        sys.modules["bincopy"] = fake
    import spsdk.utils.images as IM
    import spsdk.exceptions as EX
    import spsdk.utils.misc as M
    if symbolic:
        IM.BinaryImage.__str__ = lambda self: "<image>"
        IM.write_file = _fake_write
        IM.find_file = lambda path, **k: path
        IM.open = _fake_open


def cases(tier):
    q = tier == "quick"
    cs = []
    for fmt in ("HEX", "S19", "BIN"):
        for pat in PATTERNS:
            for kids in (1, 2):
                for var in ("plain", "own", "sized"):
                    if fmt == "BIN" and (pat in ("ones", "num") or var == "sized"):
                        continue
                    if kids == 2 and var == "own" and pat == "num":
                        continue
                    for al in ((1, 4) if q else (1, 4, 8)):
                        if al != 1 and (var == "own" or fmt == "BIN" or (q and (kids > 1 or var != "plain"))):
                            continue
                        for st in ((kids == 1,) if q else (False, True)):
                            if st and fmt == "BIN":
                                continue
                            cs.append({"id": f"files/{fmt}/pat={pat}/kids={kids}/{var}/al={al}/start={int(st)}", "h": "files",
                                       "fmt": fmt, "pat": pat, "kids": kids, "var": var, "al": al, "start": st,
                                       "maxoff": (3 if kids > 1 else 5) if q else 6, "maxsize": 6 if q else 10,
                                       "maxlen": 2 if q else 3, "weight": kids * 2 + (var == "sized")})
    return cs


def _save_load(env, root, fmt, load_offset):
    """save with the real code, load with the real code; files: in memory (symbolic) / temp dir (concrete)"""
    if env.symbolic:
        path = f"/mem/img.{fmt.lower()}"
        root.save_binary_image(path, file_format=fmt)
        return IM.BinaryImage.load_binary_image(path, offset=load_offset)
    import tempfile
    import shutil
    d = tempfile.mkdtemp(prefix="c16files-")
    try:
        path = os.path.join(d, f"img.{fmt.lower()}")
        root.save_binary_image(path, file_format=fmt)
        return IM.BinaryImage.load_binary_image(path, offset=load_offset)
    finally:
        shutil.rmtree(d, ignore_errors=True)


def h_files(env, c):
    fmt, pat, var = c["fmt"], c["pat"], c["var"]
    pattern = M.BinaryPattern(PATTERNS[pat]) if PATTERNS[pat] else None
    base = env.int("base", 0, 0xFFFFFFFF) if fmt != "BIN" else 0
    rsize = env.int("root_size", 0, c["maxsize"])
    own = env.bytes("own", 1) if var == "own" else None   # odd length: the 2-byte pattern continues out of phase
    if own is not None:
        env.assume(env.Or(rsize == 0, rsize >= 1))
    start = env.int("start", 0, 0xFFFFFFFF) if c["start"] else None
    root = IM.BinaryImage("root", size=rsize, offset=base, alignment=c["al"], pattern=pattern, binary=own,
                          execution_start_address=start)
    for k in range(c["kids"]):
        off = env.int(f"off{k}", 0, c["maxoff"])
        n = 1 + env.choice(f"len{k}", c["maxlen"])
        data = env.bytes(f"d{k}", n)
        if var == "sized" and k == 0:
            csize = env.int("child_size", 0, 4)
            env.assume(env.Or(csize == 0, csize >= n))
            cpat = M.BinaryPattern("0x1234" if pat != "num" else "ones")   # phase-sensitive fill behind an odd binary
            ch = IM.BinaryImage("c0", size=csize, offset=off, pattern=cpat, binary=data, alignment=2)
        else:
            ch = IM.BinaryImage(f"c{k}", offset=off, binary=data)
        root.add_image(ch)
    try:
        root.validate()
    except (EX.SPSDKValueError, EX.SPSDKOverlapError):
        env.cover("rejected_by_validate")
        return
    ref = root.export()
    n = len(ref)
    env.assume(n >= 1)
    env.assume(base + n <= 2 ** 32)
    lo = env.int("load_offset", 0, 0xFFFF)
    if fmt == "BIN":
        # a BIN file is told from the text formats by its content only: keep clear of text (stated)
        env.assume(env.Or(ref[0] < 9, ref[0] >= 0x80))
        env.assume(env.Not(env.bytes_eq(ref[:4], b"\x7fELF")) if n >= 4 else True)
    tag = f"files.{fmt.lower()}."
    img = _save_load(env, root, fmt, lo)
    out = img.export()
    if fmt == "BIN":
        env.prove(img.absolute_address == lo, tag + "loads_at_the_given_offset")
        env.prove(env.len(img) == n, tag + "same_length")
        env.prove_eq(out, ref, tag + "same_bytes")
        env.observe("out", out)
        return
    # which bytes of the original are defined data (handed to the file), which are only export() fill
    rootpat = pattern is not None
    defined = [rootpat] * n
    if own is not None:
        defined[0] = True
    for ch in root.sub_images:
        o = ch.offset
        o = o if isinstance(o, int) else o.__index__()
        for i in range(len(ch) if ch.pattern else len(ch.binary)):
            defined[o + i] = True
    first = defined.index(True)
    last = n - 1 - defined[::-1].index(True)
    # addresses: a loaded image starts at the first address that holds data; the load offset is added on top
    env.prove(img.absolute_address == base + first + lo, tag + "first_address_kept")
    env.prove(env.len(img) == last - first + 1, tag + "extent_kept")
    conds = [out[i - first] == ref[i] for i in range(first, last + 1) if defined[i] and i - first < len(out)]
    env.prove(env.And(*conds), tag + "same_bytes_at_same_addresses")
    conds = [out[i - first] == 0 for i in range(first, last + 1) if not defined[i] and i - first < len(out)]
    env.prove(env.And(*conds), tag + "gaps_are_fill")
    if rootpat:
        env.prove_eq(out, ref, tag + "whole_image_identical")
    env.prove(img.execution_start_address == start if start is not None else img.execution_start_address is None,
              tag + "execution_start_address_kept")
    # every loaded segment is a child holding its bytes at its own absolute address
    ok = []
    for seg in img.sub_images:
        a = seg.absolute_address - lo - base
        a = a if isinstance(a, int) else a.__index__()
        ok.append(env.And(*[seg.binary[i] == ref[a + i] for i in range(len(seg.binary))]))
        ok.append(all(defined[a + i] for i in range(len(seg.binary))))
    env.prove(env.And(*ok), tag + "segments_hold_original_bytes")
    env.observe("out", out)


def run(env, case):
    globals()["h_" + case["h"]](env, case)

"""C20 - unbounded integer contracts (z3 Int back end): align, check_range, SecBootBlckSize."""
PROPERTY = "C20"
NAME = "c20_intmath"
LOGIC = "int"
ENCODES = ["spsdk.utils.misc.align", "spsdk.utils.misc.check_range", "spsdk.sbfile.misc.SecBootBlckSize.align",
           "spsdk.sbfile.misc.SecBootBlckSize.is_aligned", "spsdk.sbfile.misc.SecBootBlckSize.to_num_blocks"]
BOUNDS = "all mathematical integers (unbounded z3 Int) for every argument"
OUTSIDE = "non-integer arguments"
STUBS = []
MUST_REACH = ["align\\..*", "range\\..*", "blk\\..*"]
OPTS = {"quick": {"case_timeout_s": 400, "query_timeout_ms": 180000}, "thorough": {"case_timeout_s": 600, "query_timeout_ms": 300000}}


def setup(symbolic):
    global M, SM, EX
    import spsdk.utils.misc as M
    import spsdk.sbfile.misc as SM
    import spsdk.exceptions as EX


def cases(tier):
    return [{"id": "align", "h": "align"}, {"id": "check_range", "h": "range"},
            {"id": "check_range_default", "h": "range_default"}, {"id": "blocksize", "h": "blk"}]


def h_align(env, c):
    n = env.int("number", None, None)
    a = env.int("alignment", None, None)
    try:
        r = M.align(n, a)
    except EX.SPSDKError:
        env.prove(env.Or(a <= 0, n < 0), "align.reject_only_invalid")
        return
    env.prove(env.And(a > 0, n >= 0), "align.accept_only_valid")
    env.prove(r >= n, "align.not_below_input")
    env.prove(r % a == 0, "align.aligned")
    env.prove(r - n < a, "align.smallest")
    env.observe("r", r)


def h_range(env, c):
    x = env.int("x", None, None)
    lo = env.int("start", None, None)
    hi = env.int("end", None, None)
    r = M.check_range(x, lo, hi)
    env.prove(env.Iff(r, env.And(lo <= x, x <= hi)), "range.truthful")
    env.observe("r", bool(r) if not env.symbolic else r)


def h_range_default(env, c):
    x = env.int("x", None, None)
    r = M.check_range(x)
    env.prove(env.Iff(r, env.And(0 <= x, x <= 0xFFFFFFFF)), "range.default_is_u32")


def h_blk(env, c):
    s = env.int("size", None, None)
    al = SM.SecBootBlckSize.is_aligned(s)
    env.prove(env.Iff(al, s % 16 == 0), "blk.is_aligned")
    try:
        nb = SM.SecBootBlckSize.to_num_blocks(s)
        env.prove(nb * 16 == s, "blk.num_blocks_exact")
    except EX.SPSDKError:
        env.prove(s % 16 != 0, "blk.reject_only_unaligned")
    if env.is_true(s >= 0):
        r = SM.SecBootBlckSize.align(s)
        env.prove(env.And(r >= s, r - s < 16, r % 16 == 0), "blk.align")


def run(env, case):
    globals()["h_" + case["h"]](env, case)

"""C20 - integer / byte helpers of spsdk.utils.misc, spsdk.sbfile.misc, SpsdkEnum."""
PROPERTY = "C20"
NAME = "c20_helpers"
LOGIC = "bv"
ENCODES = [
    "spsdk.utils.misc.get_bytes_cnt_of_int", "spsdk.utils.misc.value_to_bytes", "spsdk.utils.misc.value_to_int",
    "spsdk.utils.misc.swap16", "spsdk.utils.misc.swap32", "spsdk.utils.misc.reverse_bytes_in_longs",
    "spsdk.utils.misc.change_endianness", "spsdk.utils.misc.swap_bytes", "spsdk.utils.misc.split_data",
    "spsdk.utils.misc.extend_block", "spsdk.utils.misc.align_block", "spsdk.utils.misc.BinaryPattern.get_block",
    "spsdk.utils.misc.value_to_bool", "spsdk.utils.misc.load_hex_string",
    "spsdk.sbfile.misc.BcdVersion3._check_number", "spsdk.sbfile.misc.BcdVersion3.__init__",
    "spsdk.utils.spsdk_enum.SpsdkEnum.from_tag", "spsdk.utils.spsdk_enum.SpsdkEnum.contains",
    "spsdk.utils.spsdk_enum.SpsdkEnum.get_label", "spsdk.utils.spsdk_enum.SpsdkSoftEnum.from_tag",
]
BOUNDS = {
    "quick": "align: every number 0..2^64-1 for alignments 1,2,4,8,16,64,512,1024,4096,65536 (bit-precise); integers 0..2^136 for byte counts / to_bytes round trips (byte_cnt 0..20, both align modes, both "
             "endiannesses); swap16/32: every integer in [-2^40, 2^40]; byte strings of every length 0..9 with all "
             "bytes symbolic; alignments 0..17 (symbolic) x data lengths 0..9; extend_block target length -2..24; "
             "split sizes 1..10; BCD numbers: every integer in [-2^20, 2^20]; enum tags: every integer in "
             "[-2^33, 2^33] against 4 real SpsdkEnum classes",
    "thorough": "as quick with integers up to 2^520, byte strings of every length 0..33, alignments 0..65, data "
                "lengths 0..33",
}
OUTSIDE = ("reverse_bits (string formatting round trip inside CPython), load_hex_string file branch, negative "
           "inputs to get_bytes_cnt_of_int (non-terminating loop; recorded under known findings), the 'rand' pattern")
STUBS = []
MUST_REACH = ["align64.*", "bytes_cnt.*", "to_bytes.*", "swap16.*", "swap32.*", "rev_longs.*", "chg_end.*", "swap_bytes.*",
              "split.*", "extend.*", "align_block.*", "bcd.*", "enum.*", "to_bool.*", "hexstr.*"]
OPTS = {"quick": {"case_timeout_s": 300}, "thorough": {"case_timeout_s": 1500, "max_paths": 200000}}

M = None


def setup(symbolic):
    global M, SM, EX
    import spsdk.utils.misc as M_
    import spsdk.sbfile.misc as SM_
    import spsdk.exceptions as EX_
    M, SM, EX = M_, SM_, EX_


def cases(tier):
    q = tier == "quick"
    maxbits = 136 if q else 520
    nb = 9 if q else 33
    cs = []
    for al in (True, False):
        cs.append({"id": f"bytes_cnt/align2n={al}", "h": "bytes_cnt", "align": al, "maxbits": maxbits, "weight": 5})
        for end in ("big", "little"):
            cs.append({"id": f"to_bytes/align2n={al}/{end}", "h": "to_bytes", "align": al, "end": end,
                       "maxbits": maxbits, "weight": 5})
    for al in (1, 2, 4, 8, 16, 64, 512, 1024, 4096, 0x10000) + (() if q else (3, 10, 24)):
        cs.append({"id": f"align64/al={al}", "h": "align64", "al": al})
    cs.append({"id": "swap16", "h": "swap16"})
    cs.append({"id": "swap32", "h": "swap32"})
    for n in range(0, nb + 1):
        cs.append({"id": f"rev_longs/n={n}", "h": "rev_longs", "n": n})
        cs.append({"id": f"chg_end/n={n}", "h": "chg_end", "n": n})
        cs.append({"id": f"swap_bytes/n={n}", "h": "swap_bytes", "n": n})
        cs.append({"id": f"split/n={n}", "h": "split", "n": n, "maxsize": nb + 1})
        cs.append({"id": f"extend/n={n}", "h": "extend", "n": n, "maxlen": 24 if q else 70})
        cs.append({"id": f"align_block/n={n}", "h": "align_block", "n": n, "maxal": 17 if q else 65, "weight": 3})
    cs.append({"id": "bcd", "h": "bcd"})
    enums = ["spsdk.mboot.commands.CommandTag", "spsdk.sbfile.sb2.commands.EnumCmdTag", "spsdk.crypto.crc.CrcAlg",
             "spsdk.mboot.commands.ResponseTag"]
    if not q:
        enums.append("spsdk.mboot.error_codes.StatusCode")
    for e in enums:
        cs.append({"id": f"enum/{e.split('.')[-1]}", "h": "enum", "cls": e})
    cs.append({"id": "to_bool", "h": "to_bool"})
    cs.append({"id": "hexstr", "h": "hexstr"})
    return cs


def _ref_cnt(nbytes_min, align, byte_cnt):
    """reference width from the minimal byte count (python ints only)."""
    n = nbytes_min
    if align and n > 2:
        n = (n + 3) // 4 * 4
    return n


def h_bytes_cnt(env, c):
    v = env.int("v", 0, (1 << c["maxbits"]) - 1)
    bc = env.int("byte_cnt", 0, 20)
    use_bc = env.bool("use_bc")
    byte_cnt = bc if use_bc else None
    try:
        r = M.get_bytes_cnt_of_int(v, c["align"], byte_cnt)
    except EX.SPSDKValueError:
        r = None
    # reference: minimal n with v < 256**n (n>=1), then the documented alignment / byte_cnt rule
    nmin = 1
    for i in range(1, c["maxbits"] // 8 + 1):
        nmin = nmin + env.If(v >= (1 << (8 * i)), 1, 0)
    al = env.If(nmin > 2, (nmin + 3) // 4 * 4, nmin) if c["align"] else nmin
    eff_bc = byte_cnt if (byte_cnt is not None) else 0
    if r is None:
        # rejection is only allowed when a non-zero byte_cnt is too small for the (aligned) width
        env.prove(eff_bc != 0, "bytes_cnt.reject_needs_byte_cnt")
        env.prove(al > eff_bc, "bytes_cnt.reject_only_if_too_small")
    else:
        if isinstance(eff_bc, int) and eff_bc == 0:
            env.prove(r == al, "bytes_cnt.width_documented")
        else:
            if bool(eff_bc == 0):
                env.prove(r == al, "bytes_cnt.width_documented")
            else:
                env.prove(r == eff_bc, "bytes_cnt.width_is_byte_cnt")
                if bool(v != 0):
                    env.prove(al <= eff_bc, "bytes_cnt.fits")
        env.prove(r >= 1, "bytes_cnt.positive")
    env.observe("r", -1 if r is None else r)


def h_to_bytes(env, c):
    v = env.int("v", 0, (1 << c["maxbits"]) - 1)
    end = M.Endianness.BIG if c["end"] == "big" else M.Endianness.LITTLE
    b = M.value_to_bytes(v, align_to_2n=c["align"], endianness=end)
    back = env.from_bytes(b, c["end"])
    env.prove(back == v, "to_bytes.roundtrip")
    n = len(b)
    env.prove(v < (1 << (8 * n)), "to_bytes.fits")
    if n > 1 and not (c["align"] and n > 2):
        env.prove(v >= (1 << (8 * (n - 1))), "to_bytes.minimal")
    if c["align"] and n > 2:
        env.prove(n % 4 == 0, "to_bytes.aligned4")
        env.prove(v >= (1 << (8 * (n - 4))), "to_bytes.minimal_aligned")
    env.prove(M.value_to_int(b) == v if c["end"] == "big" else True, "to_bytes.value_to_int_inverse")
    env.observe("b", b)


def h_align64(env, c):
    """align on 64-bit numbers with the alignments SPSDK actually uses (bit-precise, so that an implementation
    going through float division is modelled with IEEE doubles)."""
    n = env.int("number", 0, (1 << 64) - 1)
    a = c["al"]
    r = M.align(n, a)
    env.prove(r >= n, "align64.not_below_input")
    env.prove(r % a == 0, "align64.aligned")
    env.prove(r - n < a, "align64.smallest")
    env.observe("r", r)


def h_swap16(env, c):
    x = env.int("x", -(1 << 40), 1 << 40)
    try:
        r = M.swap16(x)
    except EX.SPSDKError:
        env.prove(env.Or(x < 0, x > 0xFFFF), "swap16.reject_only_out_of_range")
        return
    env.prove(env.And(0 <= x, x <= 0xFFFF), "swap16.accept_only_in_range")
    env.prove(r == (x % 256) * 256 + x // 256, "swap16.reference")
    env.prove(M.swap16(r) == x, "swap16.involution")
    env.observe("r", r)


def h_swap32(env, c):
    x = env.int("x", -(1 << 40), 1 << 40)
    try:
        r = M.swap32(x)
    except EX.SPSDKError:
        env.prove(env.Or(x < 0, x > 0xFFFFFFFF), "swap32.reject_only_out_of_range")
        return
    env.prove(env.And(0 <= x, x <= 0xFFFFFFFF), "swap32.accept_only_in_range")
    ref = (x % 256) * (1 << 24) + (x // 256 % 256) * (1 << 16) + (x // 65536 % 256) * 256 + x // (1 << 24)
    env.prove(r == ref, "swap32.reference")
    env.prove(M.swap32(r) == x, "swap32.involution")
    env.observe("r", r)


def _eq(env, a, b, label):
    return env.prove_eq(a, b, label)


def h_rev_longs(env, c):
    n = c["n"]
    d = env.bytes("d", n)
    try:
        r = M.reverse_bytes_in_longs(d)
    except EX.SPSDKError:
        env.prove(n % 4 != 0, "rev_longs.reject_only_non_mod4")
        return
    env.prove(n % 4 == 0, "rev_longs.accept_only_mod4")
    env.prove(len(r) == n, "rev_longs.len")
    for i in range(n):
        env.prove(r[i] == d[(i // 4) * 4 + 3 - i % 4], f"rev_longs.byte")
    _eq(env, M.reverse_bytes_in_longs(r), d, "rev_longs.involution")
    env.observe("r", r)


def h_chg_end(env, c):
    n = c["n"]
    d = env.bytes("d", n)
    try:
        r = M.change_endianness(d)
    except EX.SPSDKError:
        env.prove(n == 3 or (n > 3 and n % 4 != 0), "chg_end.reject_only_documented")
        return
    env.prove(len(r) == n, "chg_end.len")
    if n <= 2:
        for i in range(n):
            env.prove(r[i] == d[n - 1 - i], "chg_end.byte")
    else:
        for i in range(n):
            env.prove(r[i] == d[(i // 4) * 4 + 3 - i % 4], "chg_end.byte")
    _eq(env, M.change_endianness(r), d, "chg_end.involution")
    env.observe("r", bytes(r) if not env.symbolic else r)


def h_swap_bytes(env, c):
    n = c["n"]
    d = env.bytes("d", n)
    try:
        r = M.swap_bytes(d)
    except (EX.SPSDKError, ValueError):
        env.prove(n % 2 == 1, "swap_bytes.reject_only_odd")
        return
    env.prove(n % 2 == 0, "swap_bytes.accept_only_even")
    env.prove(len(r) == n, "swap_bytes.len")
    for i in range(n):
        env.prove(r[i] == d[i ^ 1], "swap_bytes.byte")
    _eq(env, M.swap_bytes(r), d, "swap_bytes.involution")
    env.observe("r", r)


def h_split(env, c):
    n = c["n"]
    d = env.bytes("d", n)
    size = env.int("size", 1, c["maxsize"])
    chunks = list(M.split_data(d, size))
    acc = b""
    for i, ch in enumerate(chunks):
        if i < len(chunks) - 1:
            env.prove(len(ch) == size, "split.full_chunk")
        else:
            env.prove(env.And(len(ch) <= size, len(ch) >= 1), "split.last_chunk")
        acc = acc + ch
    _eq(env, acc, d, "split.concat_is_identity")
    env.observe("k", len(chunks))


def h_extend(env, c):
    n = c["n"]
    d = env.bytes("d", n)
    length = env.int("length", -2, c["maxlen"])
    pad = env.int("pad", 0, 255)
    try:
        r = M.extend_block(d, length, pad)
    except EX.SPSDKError:
        env.prove(length < n, "extend.reject_only_short")
        return
    env.prove(length >= n, "extend.accept_only_ge")
    env.prove(len(r) == length, "extend.len")
    _eq(env, r[:n], d, "extend.prefix_kept")
    for i in range(n, len(r)):
        env.prove(r[i] == pad, "extend.padding")
    env.observe("r", r)


def h_align_block(env, c):
    n = c["n"]
    d = env.bytes("d", n)
    al = env.int("alignment", -1, c["maxal"])
    pad = env.int("pad", 0, 255)
    use_pad = env.choice("pad_kind", 3)
    padding = None if use_pad == 0 else pad if use_pad == 1 else M.BinaryPattern("ones")
    if use_pad == 1:
        # align_block renders an int padding through str(); only a concrete byte is used on this branch
        padding = pad = 0xA5
    try:
        r = M.align_block(d, al, padding)
    except EX.SPSDKError:
        env.prove(al <= 0, "align_block.reject_only_bad_alignment")
        return
    env.prove(al >= 1, "align_block.accept_only_positive")
    ln = len(r)
    env.prove(ln >= n, "align_block.only_appends")
    env.prove(ln % al == 0, "align_block.aligned")
    env.prove(ln - n < al, "align_block.smallest")
    _eq(env, r[:n], d, "align_block.prefix_kept")
    fill = 0 if use_pad == 0 else pad if use_pad == 1 else 0xFF
    for i in range(n, ln):
        env.prove(r[i] == fill, "align_block.padding")
    env.observe("r", r)


def h_bcd(env, c):
    x = env.int("x", -(1 << 20), 1 << 20)
    try:
        ok = SM.BcdVersion3._check_number(x)
    except EX.SPSDKError:
        ok = False
    ref = env.And(x >= 0, x <= 0x9999, x % 16 <= 9, x // 16 % 16 <= 9, x // 256 % 16 <= 9, x // 4096 % 16 <= 9)
    env.prove(env.Iff(ref, ok), "bcd.check_number_iff_valid_bcd")
    if ok:
        v = SM.BcdVersion3(x, 0x1, 0x9999)
        env.prove(v.nums[0] == x, "bcd.ctor_keeps")


def h_enum(env, c):
    import importlib
    modn, clsn = c["cls"].rsplit(".", 1)
    cls = getattr(importlib.import_module(modn), clsn)
    t = env.int("tag", -(1 << 33), 1 << 33)
    tags = [m.tag for m in cls.__members__.values()]
    try:
        m = cls.from_tag(t)
        found = True
    except EX.SPSDKKeyError:
        found = False
    if found:
        env.prove(m.tag == t, "enum.from_tag_returns_member_with_tag")
        env.prove(cls.get_label(t) == m.label, "enum.label")
    else:
        for k in tags:
            env.prove(t != k, "enum.not_found_only_if_absent")
    env.prove(cls.contains(t) == found, "enum.contains_iff_from_tag")
    env.observe("found", found)


def h_to_bool(env, c):
    x = env.int("x", -(1 << 33), 1 << 33)
    r = M.value_to_bool(x)
    env.prove(env.Iff(r, x != 0), "to_bool.int_truthiness")
    for s, exp in (("True", True), ("true", True), ("T", True), ("1", True), ("False", False), ("0", False), ("", False)):
        env.prove(M.value_to_bool(s) is exp, "to_bool.strings")
    env.prove(M.value_to_bool(None) is False, "to_bool.none")


def h_hexstr(env, c):
    """load_hex_string on int/bytes sources: exact size or SPSDKError."""
    size = env.int("size", -1, 9)
    v = env.int("v", 1, (1 << 72) - 1)
    try:
        r = M.load_hex_string(v, size)
    except EX.SPSDKError:
        # rejection allowed only for size < 1 or when the value, widened to the documented 1/2/4k byte widths
        # ("after align"), does not fit the expected size
        if env.is_true(size < 1):
            return
        fit = 1 if c.get("_") else None
        w = 1
        for i in range(1, 10):
            w = w + env.If(v >= (1 << (8 * i)), 1, 0)
        w = env.If(w > 2, (w + 3) // 4 * 4, w)
        env.prove(w > size, "hexstr.reject_only_invalid")
        return
    env.prove(len(r) == size, "hexstr.exact_size")
    env.prove(env.from_bytes(r, "big") == v, "hexstr.value")


def run(env, case):
    globals()["h_" + case["h"]](env, case)

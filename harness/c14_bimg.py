"""C14 - bootable image: segments land at the device offsets and come back on parse.

Two kinds of cases over the real BootableImage / Segment / BinaryImage code and the real device database:
 layout  - application container lengths and the init offset are SYMBOLIC; the BinaryImage tree produced by image_info()
           is checked against the database offsets (static, or aligned end of the predecessor for floating segments),
           pairwise non-overlap and total length;
 bytes   - concrete lengths, symbolic segment contents: export() has every segment at its offset and the device pattern in
           the gaps; parsing the result (also when it was exported from a later init offset, with and without telling the
           parser) gives back every segment's bytes."""
import itertools

PROPERTY = "C14"
NAME = "c14_bimg"
LOGIC = "bv"
ENCODES = [
    "spsdk.image.bootable_image.bimg.BootableImage.__init__", "spsdk.image.bootable_image.bimg.BootableImage.init_offset",
    "spsdk.image.bootable_image.bimg.BootableImage.set_init_offset", "spsdk.image.bootable_image.bimg.BootableImage._update_segments",
    "spsdk.image.bootable_image.bimg.BootableImage.get_segment_offset", "spsdk.image.bootable_image.bimg.BootableImage.__len__",
    "spsdk.image.bootable_image.bimg.BootableImage.image_info", "spsdk.image.bootable_image.bimg.BootableImage.export",
    "spsdk.image.bootable_image.bimg.BootableImage._parse", "spsdk.image.bootable_image.bimg.BootableImage._parse_all",
    "spsdk.image.bootable_image.bimg.BootableImage.parse", "spsdk.image.bootable_image.bimg.BootableImage.verify",
    "spsdk.image.bootable_image.segments.Segment.*", "spsdk.image.bootable_image.segments.SegmentFcb.parse_binary",
    "spsdk.image.bootable_image.segments.SegmentXmcd.parse_binary", "spsdk.image.bootable_image.segments.SegmentMbi.*",
    "spsdk.image.bootable_image.segments.SegmentHab.*", "spsdk.image.bootable_image.segments.SegmentAhab.*",
    "spsdk.image.bootable_image.segments.SegmentSB21.parse_binary", "spsdk.image.bootable_image.segments.SegmentSB31.parse_binary",
    "spsdk.utils.images.BinaryImage.add_image", "spsdk.utils.images.BinaryImage.export", "spsdk.utils.images.BinaryImage.validate",
    "spsdk.utils.misc.align",
]
BOUNDS = {
    "quick": "one (family, memory type) per distinct segment layout of the device database (22 layouts over 110 families); "
             "layout cases: every subset of optional segments, application container lengths symbolic 1..2^24, init offset "
             "symbolic 0..last static offset + 16, also after an earlier (symbolic) init offset on the same object; bytes cases: all header segments present / each one absent, container "
             "lengths {9, 1023, 1024, 1025}, raw header segments fully symbolic (FCB and XMCD: the class's default block), "
             "init offsets: every INIT segment",
    "thorough": "every (family, memory type) of the bootable_image feature, all subsets in the bytes cases",
}
OUTSIDE = ("the inside of the application containers: MBI / HAB / AHAB / SB2.1 / SB3.1 parsers are replaced by one "
           "self-delimiting container model (magic, length, body) - their own round trips are C01/C04/C05/C06/C07; FCB and "
           "XMCD blocks with other than default content (C12); header segments whose whole content equals the padding "
           "pattern (documented: treated as absent); non-latest revisions; YAML load_from_config/store_config plumbing")
STUBS = ["segments.MasterBootImage / HabContainer / AHABImage / BootImageV21 / SecureBinary31 -> self-delimiting container "
         "model 'APPC' + length + body (both in the symbolic and in the concrete runs); the realmbi/* cases run the REAL Master "
         "Boot Image classes instead (CRC / plain images with a symbolic payload)"]
MUST_REACH = ["layout\\..*", "bytes\\..*", "parse\\..*"]
OPTS = {"quick": {"case_timeout_s": 300, "max_paths": 4000}, "thorough": {"case_timeout_s": 1800, "max_paths": 40000}}

MAGIC = b"APPC"
APP_KINDS = ("mbi", "hab_container", "ahab_container", "primary_image_container_set", "secondary_image_container_set", "sb21", "sb31")


def setup(symbolic):
    global BI, SEG, IM, EX, MT, FCB, XMCD, XT, VER, SYM
    SYM = symbolic
    import spsdk.exceptions as EX
    import spsdk.utils.images as IM
    import spsdk.image.bootable_image.segments as SEG
    import spsdk.image.bootable_image.bimg as BI
    import spsdk.image.mem_type as MT
    import spsdk.utils.verifier as VER
    from spsdk.image.fcb.fcb import FCB
    from spsdk.image.xmcd.xmcd import XMCD
    import spsdk.image.xmcd.xmcd as XT
    if symbolic:
        IM.BinaryImage.__str__ = lambda self: "<image>"

    class App:
        """self-delimiting application container: 'APPC' + total length (LE32) + body; or a length-only container"""

        def __init__(self, family=None, revision="latest", data=None, total=None):
            self.data, self.total = data, total

        # -- construction / parsing -----------------------------------------------------------------------------
        @classmethod
        def _read(cls, data):
            if len(data) < 8 or data[:4] != MAGIC:          # (forks on symbolic bytes)
                raise EX.SPSDKParsingError("not an application container")
            n = int.from_bytes(bytes(data[4:8]), "little")
            if n < 8 or len(data) < n:
                raise EX.SPSDKParsingError("truncated application container")
            return data[:n]

        @classmethod
        def parse(cls, data=None, family=None, **kw):            # MasterBootImage.parse / HabContainer.parse
            return cls(data=cls._read(data))

        def _parse_inst(self, binary):                            # AHABImage(...).parse(binary)
            self.data = self._read(binary)

        @staticmethod
        def validate_header(binary):                               # BootImageV21 / SecureBinary31
            if len(binary) < 8 or binary[:4] != MAGIC:
                raise EX.SPSDKError("Invalid header")

        @staticmethod
        def find_offset_of_ahab(binary, do_detail_search=False):
            for offset in range(0, len(binary), 0x400):
                if binary[offset: offset + 4] == MAGIC:
                    return offset
            raise EX.SPSDKError("The AHAB container has not been found in given binary data")

        # -- queries --------------------------------------------------------------------------------------------
        def __len__(self):
            return self.total if self.data is None else len(self.data)

        @property
        def total_len(self):
            return self.__len__()

        def export(self):
            return self.data if self.data is not None else b"\x01"

        def validate(self):
            pass

        def update_fields(self):
            pass

        def image_info(self):
            if self.data is None:
                return IM.BinaryImage(name="app", size=self.total)
            return IM.BinaryImage(name="app", size=len(self.data), binary=self.data)

        export_image = image_info

        def verify(self):
            return VER.Verifier("application container model")

        @staticmethod
        def pre_parse_verify(data):
            return VER.Verifier("application container model")

    class Ahab(App):
        parse = App._parse_inst

    global APP, AHAB, REAL_MBI, MB
    APP, AHAB = App, Ahab
    REAL_MBI = SEG.MasterBootImage
    from harness import mbi_common as MB
    MB.setup(symbolic)
    SEG.MasterBootImage = App
    SEG.HabContainer = App
    SEG.AHABImage = Ahab
    SEG.BootImageV21 = App
    SEG.SecureBinary31 = App


def layouts():
    """{layout signature: [(family, mem_type label), ...]} straight from the database"""
    shapes = {}
    for f in BI.BootableImage.get_supported_families():
        for mt in BI.BootableImage.get_supported_memory_types(f):
            b = BI.BootableImage(f, mt)
            sig = tuple((s.NAME.label, s.full_image_offset, s.SIZE, s.OFFSET_ALIGNMENT) for s in b._segments) + (b.image_pattern,)
            shapes.setdefault(sig, []).append((f, mt.label))
    return shapes


def cases(tier):
    q = tier == "quick"
    cs = []
    for sig, members in sorted(layouts().items(), key=lambda kv: kv[1][0]):
        segs = [s for s in sig[:-1]]
        optional = [s[0] for s in segs if s[0] not in APP_KINDS] + (["secondary_image_container_set"] if any(
            s[0] == "secondary_image_container_set" for s in segs) else [])
        for fam, mt in (members[:1] if q else members):
            subsets = [frozenset(c) for r in range(len(optional) + 1) for c in itertools.combinations(optional, r)]
            for sub in subsets:
                tag = "+".join(sorted(sub)) or "none"
                cs.append({"id": f"layout/{fam}/{mt}/{tag}", "h": "layout", "family": fam, "mem": mt, "present": sorted(sub)})
                if len(segs) > 1 and (not q or sub == frozenset(optional)):
                    cs.append(dict(cs[-1], id=cs[-1]["id"] + "/after_earlier_offset", history=True))
            if q:
                byte_sets = [frozenset(optional)] + [frozenset(optional) - {o} for o in optional]
            else:
                byte_sets = subsets
            for sub in byte_sets:
                tag = "+".join(sorted(sub)) or "none"
                for L in ((9, 1025) if q else (9, 1023, 1024, 1025)):
                    cs.append({"id": f"bytes/{fam}/{mt}/{tag}/L={L}", "h": "bytes", "family": fam, "mem": mt,
                               "present": sorted(sub), "L": L, "weight": 3})
    for fam, mem, key in (("lpc5534", "flexspi_nor", "lpc5534_xip_crc"), ("mimxrt533s", "flexspi_nor", "mimxrt533s_xip_crc"),
                          ("mimxrt595s", "sd", "mimxrt595s_xip_plain"), ("mcxn947", "flexspi_nor", "mcxn947_xip_crc")):
        try:
            keys = MB.MBI.get_mbi_classes(fam)
            mts = [m.label for m in BI.BootableImage.get_supported_memory_types(fam)]
        except Exception:
            continue
        if key not in keys or mem not in mts:
            continue
        names = [s.NAME.label for s in BI.BootableImage(fam, MT.MemoryType.from_label(mem))._segments]
        opt = [n for n in names if n not in APP_KINDS]
        for L in (0x40, 0x123):
            cs.append({"id": f"realmbi/{fam}/{mem}/{key}/L={L:#x}", "h": "realmbi", "family": fam, "mem": mem, "key": key, "L": L,
                       "present": opt, "weight": 5})
    return cs


def ref_align(env, x, a):
    return (x + a - 1) // a * a


def expected_layout(env, bimg, present_names, lens, init_eff):
    """reference: {name: (offset in the exported image, length)} for the segments that must be in the image"""
    out = []
    prev_end_full = None
    for seg in bimg._segments:
        name = seg.NAME.label
        if name not in present_names:
            continue
        ln = lens[name]
        db_off = seg._offset
        if db_off >= 0:
            full = db_off
        else:
            full = ref_align(env, prev_end_full, seg.OFFSET_ALIGNMENT)
        prev_end_full = full + ln
        out.append((name, full, ln))
    return out


# ---------------------------------------------------------------------------------------------------------- layout
def h_layout(env, c):
    mt = MT.MemoryType.from_label(c["mem"])
    bimg = BI.BootableImage(c["family"], mt)
    statics = sorted({s._offset for s in bimg._segments if s._offset >= 0})
    k = env.int("init_offset", 0, statics[-1] + 16)
    present = set(c["present"])
    lens = {}
    for seg in bimg._segments:
        name = seg.NAME.label
        if name in APP_KINDS:
            if name == "secondary_image_container_set" and name not in present:
                continue
            present.add(name)
            if name in ("sb21", "sb31"):
                # these segments are raw blocks: their length is the length of the bytes (concrete here)
                seg.raw_block = MAGIC + (1032).to_bytes(4, "little") + bytes(1024)
                lens[name] = 1032
                continue
            ln = env.int(f"len_{name}", 1, 1 << 24)
            lens[name] = ln
            seg.raw_block = b"\x01"
            app = (AHAB if "ahab" in name or "container_set" in name else APP)(total=ln)
            for attr in ("mbi", "hab", "ahab"):
                if hasattr(seg, attr):
                    setattr(seg, attr, app)
        elif name in present:
            seg.raw_block = bytes([0x5A]) * seg.SIZE
            lens[name] = seg.SIZE
    # ---- init offset: reference = the closest static offset at or above the requested one ------------------------
    if c.get("history"):
        # the object had another init offset before: the outcome must depend on the last setting only
        k0 = env.int("earlier_init_offset", 0, statics[-1] + 16)
        try:
            bimg.init_offset = k0
        except EX.SPSDKValueError:
            pass
    try:
        bimg.init_offset = k
        refused = False
    except EX.SPSDKValueError:
        refused = True
    above = [o for o in statics]
    can = env.Or(k == 0, *[o >= k for o in statics])
    env.prove(env.Iff(env.Not(can), refused), "layout.init_offset_refused_iff_beyond_last_static_segment")
    if refused:
        return
    eff = 0
    for o in sorted(statics, reverse=True):
        eff = env.If(env.And(k != 0, o >= k), o, eff)
    env.prove(bimg.init_offset == eff, "layout.init_offset_snaps_to_next_segment_start")
    exp = expected_layout(env, bimg, present, lens, eff)
    info = bimg.image_info()
    got = {im.name: im for im in info.sub_images}
    # a static segment below the init offset is left out, everything else is in the image
    seen_end = 0
    for name, full, ln in exp:
        seg = next(s for s in bimg._segments if s.NAME.label == name)
        static = seg._offset >= 0
        included = env.is_true(full >= eff) if static else True
        if static and not included:
            env.prove(name not in got, "layout.segment_below_init_offset_left_out")
            continue
        env.prove(name in got, "layout.segment_in_image")
        if name not in got:
            continue
        env.prove(got[name].offset == full - eff, "layout.segment_at_database_offset_or_aligned_end_of_predecessor")
        env.prove(env.len(got[name]) == ln, "layout.segment_length")
    items = [(got[n].offset, env.len(got[n])) for n, _, _ in exp if n in got]
    for i in range(len(items)):
        for j in range(i + 1, len(items)):
            a, b = items[i], items[j]
            env.prove(env.Or(a[0] + a[1] <= b[0], b[0] + b[1] <= a[0]), "layout.no_segment_overlaps_another")
    if items:
        end = items[0][0] + items[0][1]
        for o, l in items[1:]:
            end = env.If(o + l > end, o + l, end)
        env.prove(env.len(bimg) == items[-1][0] + items[-1][1], "layout.total_length_is_end_of_last_segment")
        try:
            info.validate()
            env.prove(True, "layout.binary_image_tree_valid")
        except EX.SPSDKError:
            # only possible when a container is longer than the room in front of the next static segment
            env.prove(False, "layout.binary_image_tree_valid")


# ---------------------------------------------------------------------------------------------------------- bytes
def seg_content(env, seg, name, L, fam, mt):
    if name in APP_KINDS:
        n = L if name != "secondary_image_container_set" else 16
        body = env.bytes(f"{name}_body", n - 8)
        # a body that shows the container magic at a 256-byte boundary is ambiguous for any scanning parser
        for i in range(len(body)):
            if (8 + i) % 0x100 == 0:
                env.assume(body[i] != MAGIC[0])
        return MAGIC + n.to_bytes(4, "little") + body
    if name.startswith("fcb"):
        try:
            blk = FCB(fam, mt).export()
            return FCB.TAG + blk[4:]       # (the xspi_nor register file has a zero default in its tag register)
        except EX.SPSDKError:
            return b"FCFB" + env.bytes("fcb_rest", seg.SIZE - 4)
    if name == "xmcd":
        from spsdk.utils.database import get_db, DatabaseManager
        mts = get_db(fam, "latest").get_dict(DatabaseManager.XMCD, "mem_types", default={})
        xm = MT.MemoryType.from_label(sorted(mts)[0])
        ct = XMCD.get_supported_configuration_types(fam, xm)[0]
        return XMCD(fam, xm, ct).export()
    if name == "image_version_ap":
        v = env.bytes("image_version_segment", 2)
        return bytes(v[:2]) + bytes([v[0] ^ 0xFF, v[1] ^ 0xFF]) if not env.symbolic else v + _xor_ff(v)
    return env.bytes(f"{name}_data", seg.SIZE)


def _xor_ff(v):
    from symx.sbytes import SymBytes
    return SymBytes.make([x ^ 0xFF for x in v])


def fill(bimg, i):
    return 0xFF if bimg.image_pattern == "ones" else 0


def h_bytes(env, c):
    mt = MT.MemoryType.from_label(c["mem"])
    fam = c["family"]
    bimg = BI.BootableImage(fam, mt)
    present = set(c["present"])
    content = {}
    for seg in bimg._segments:
        name = seg.NAME.label
        if name in APP_KINDS and name != "secondary_image_container_set":
            present.add(name)
        if name not in present:
            continue
        L = c["L"]
        if "secondary_image_container_set" in present and L < 1025:
            # a short primary set followed by the secondary one at the next 1 KiB boundary: an image cut at the primary
            # set is then byte-for-byte a complete image of a layout whose primary offset is 1 KiB (format ambiguity)
            L = 1025 + L
        data = seg_content(env, seg, name, L, fam, mt)
        content[name] = data
        seg.raw_block = data
        if seg.SIZE > 0 and name not in ("xmcd",) and env.symbolic and not isinstance(data, bytes):
            # a header segment that is all zeros / all ones is (documented) read back as 'not present'
            env.assume(env.Not(env.Or(env.And(*[x == 0 for x in data]), env.And(*[x == 0xFF for x in data]))))
    lens = {n: len(d) for n, d in content.items()}
    exp = expected_layout(env, bimg, present, lens, 0)
    out = bimg.export()
    b = list(out)
    total = exp[-1][1] + exp[-1][2]
    env.prove(len(b) == total, "bytes.total_length")
    covered = [False] * len(b)
    for name, off, ln in exp:
        env.prove(env.bytes_eq(b[off: off + ln], content[name]), "bytes.segment_bytes_at_its_offset")
        for i in range(off, min(off + ln, len(b))):
            covered[i] = True
    gaps = [i for i in range(len(b)) if not covered[i]]
    env.prove(env.And(*[b[i] == fill(bimg, i) for i in gaps]), "bytes.gaps_filled_with_device_pattern")
    # ---- parse the complete image -------------------------------------------------------------------------------
    check_parse(env, out, fam, mt, content, exp, 0, "parse.full_image")
    # ---- export from each INIT segment's offset and parse that ------------------------------------------------------
    for seg in bimg._segments:
        if not seg.INIT_SEGMENT or seg._offset <= 0 or seg.NAME.label not in present:
            continue
        part = BI.BootableImage(fam, mt, init_offset=seg.NAME)
        for s2 in part._segments:
            if s2.NAME.label in content:
                s2.raw_block = content[s2.NAME.label]
        pout = part.export()
        start = seg._offset
        env.prove(env.bytes_eq(pout, b[start:]), "bytes.partial_export_is_tail_of_full_image")
        check_parse(env, pout, fam, mt, content, [(n, o - start, l) for n, o, l in exp if o >= start], start,
                    f"parse.from_{seg.NAME.label}")


def h_realmbi(env, c):
    """the REAL Master Boot Image as application container (no container model): a CRC / plain image with a symbolic
    payload built by the MBI class, placed by the bootable image, found and parsed back by the real MBI parser"""
    mt = MT.MemoryType.from_label(c["mem"])
    fam = c["family"]
    SEG.MasterBootImage = REAL_MBI
    try:
        x = MB.build(env, {"family": fam, "key": c["key"], "L": c["L"]})
        mbi_bytes = x.obj.export()
        bimg = BI.BootableImage(fam, mt)
        content = {}
        for seg in bimg._segments:
            name = seg.NAME.label
            if name == "mbi":
                seg.mbi = x.obj
                seg.raw_block = mbi_bytes
                content[name] = mbi_bytes
            elif name in c["present"]:
                content[name] = seg_content(env, seg, name, 0, fam, mt)
                seg.raw_block = content[name]
        exp = expected_layout(env, bimg, set(content), {n: len(d) for n, d in content.items()}, 0)
        out = bimg.export()
        b = list(out)
        for name, off, ln in exp:
            env.prove(env.bytes_eq(b[off: off + ln], content[name]), "bytes.segment_bytes_at_its_offset")
        back = BI.BootableImage.parse(out, family=fam, mem_type=mt)
        got = {s.NAME.label: s for s in back.segments}
        env.prove("mbi" in got and got["mbi"].mbi is not None, "parse.real_mbi_found_and_parsed")
        if "mbi" in got and got["mbi"].mbi is not None:
            env.prove(type(got["mbi"].mbi).__name__ == x.cls.__name__ or got["mbi"].mbi.IMAGE_TYPE == x.cls.IMAGE_TYPE, "parse.real_mbi_same_image_type")
            env.prove_eq(got["mbi"].export()[: len(mbi_bytes)], mbi_bytes, "parse.real_mbi_bytes_recovered")
            env.prove(back.get_segment_offset(got["mbi"]) == [o for n, o, l in exp if n == "mbi"][0], "parse.real_mbi_offset_recovered")
    finally:
        SEG.MasterBootImage = APP


def check_parse(env, binary, fam, mt, content, exp, init, label):
    try:
        back = BI.BootableImage.parse(binary, family=fam, mem_type=mt)
    except EX.SPSDKError:
        env.prove(False, label + ".accepted")
        return
    env.prove(True, label + ".accepted")
    env.prove(back.init_offset == init, label + ".init_offset_detected")
    got = {s.NAME.label: s for s in back.segments}
    for name, off, ln in exp:
        env.prove(name in got, label + ".segment_found")
        if name not in got:
            continue
        raw = got[name].export()
        want = content[name]
        if name == "hab_container":
            # the HAB segment keeps everything up to the end of the input
            env.prove(env.bytes_eq(raw[:len(want)], want), label + ".segment_bytes_recovered")
        else:
            env.prove(len(raw) == len(want) and env.is_true(env.bytes_eq(raw, want)) if not env.symbolic else
                      (env.bytes_eq(raw, want) if len(raw) == len(want) else False), label + ".segment_bytes_recovered")
        env.prove(back.get_segment_offset(got[name]) == off, label + ".segment_offset_recovered")
    # a segment the parser reports in addition (e.g. the 4-byte image version, which has no 'absent' encoding) must
    # describe the bytes that are there, so that exporting the parsed image gives the same file
    b = list(binary)
    for name in sorted(set(got) - {n for n, _, _ in exp}):
        raw = got[name].export()
        o = back.get_segment_offset(got[name])
        env.prove(env.bytes_eq(raw, b[o: o + len(raw)]), label + ".additional_segment_describes_the_bytes_present")


def run(env, case):
    globals()["h_" + case["h"]](env, case)

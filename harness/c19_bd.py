"""C19 - BD command files: the real lexer + LALR parser + semantic actions + SB21Helper run on program skeletons
whose integer literals are symbolic; every constant / operand is compared with a reference evaluator."""
import itertools

PROPERTY = "C19"
NAME = "c19_bd"
LOGIC = "bv"
ENCODES = [
    "spsdk.sbfile.sb2.sly_bd_parser.BDParser.expr", "spsdk.sbfile.sb2.sly_bd_parser.BDParser.unary_expr",
    "spsdk.sbfile.sb2.sly_bd_parser.BDParser.bool_expr", "spsdk.sbfile.sb2.sly_bd_parser.BDParser.constant_def",
    "spsdk.sbfile.sb2.sly_bd_parser.BDParser.load_stmt", "spsdk.sbfile.sb2.sly_bd_parser.BDParser.erase_stmt",
    "spsdk.sbfile.sb2.sly_bd_parser.BDParser.address_or_range", "spsdk.sbfile.sb2.sly_bd_parser.BDParser.call_stmt",
    "spsdk.sbfile.sb2.sly_bd_parser.BDParser.jump_sp_stmt", "spsdk.sbfile.sb2.sly_bd_parser.BDParser.enable_stmt",
    "spsdk.sbfile.sb2.sly_bd_parser.BDParser.version_stmt", "spsdk.sbfile.sb2.sly_bd_parser.BDParser.keystore_stmt",
    "spsdk.sbfile.sb2.sly_bd_parser.BDParser.section_block", "spsdk.sbfile.sb2.sly_bd_parser.BDParser.option_def",
    "spsdk.sbfile.sb2.sly_bd_parser.BDParser.precedence", "spsdk.sbfile.sb2.sly_bd_lexer.BDLexer.tokenize",
    "spsdk.sbfile.sb2.sb_21_helper.SB21Helper._fill_memory", "spsdk.sbfile.sb2.sb_21_helper.SB21Helper._load",
    "spsdk.sbfile.sb2.sb_21_helper.SB21Helper._prog", "spsdk.sbfile.sb2.sb_21_helper.SB21Helper._erase_cmd_handler",
    "spsdk.sbfile.sb2.sb_21_helper.SB21Helper._enable", "spsdk.sbfile.sb2.sb_21_helper.SB21Helper._jump",
    "spsdk.sbfile.sb2.sb_21_helper.SB21Helper._version_check", "spsdk.sbfile.sb2.sb_21_helper.SB21Helper._keystore_to_nv",
    "spsdk.sbfile.sb2.sb_21_helper.SB21Helper._keystore_from_nv", "spsdk.sbfile.sb2.sb_21_helper.SB21Helper.get_mem_id",
    "spsdk.sbfile.sb2.commands.CmdFill.__init__", "spsdk.sbfile.sb2.commands.CmdErase.__init__",
    "spsdk.sbfile.sb2.commands.CmdLoad.__init__", "spsdk.sbfile.sb2.commands.CmdJump.__init__",
    "spsdk.sbfile.sb2.commands.CmdMemEnable.__init__", "spsdk.sbfile.sb2.commands.CmdVersionCheck.__init__",
    "spsdk.sbfile.sb2.commands.CmdProg.__init__",
]
BOUNDS = {
    "quick": "programs: every binary operator alone; every ordered pair of the 10 binary operators without parentheses "
             "and with each parenthesisation (300 skeletons); unary +/-; comparisons and logical operators; defined(); "
             "constants referring to earlier constants, several definitions per line; sections with each supported "
             "statement kind, operands being literals or 2-operand expressions; every integer literal is a symbolic "
             "32-bit value (shift counts 0..31, divisors 1..2^32-1, / and % on non-negative operands)",
    "thorough": "as quick plus all operator triples a op1 b op2 c op3 d without parentheses (1000 skeletons) and "
                "two-section programs",
}
OUTSIDE = ("integer-size suffixes .w/.h/.b (undocumented semantics); file contents of sources (files are concrete); "
           "keyblob/encrypt/keywrap statements (crypto, see C13); negative operands of / and %")
STUBS = []
MUST_REACH = ["expr\\..*", "bool\\..*", "const\\..*", "stmt\\..*", "refuse\\..*"]
OPTS = {"quick": {"case_timeout_s": 300}, "thorough": {"case_timeout_s": 1200}}

BINOPS = ["+", "-", "*", "/", "%", "<<", ">>", "&", "|", "^"]
# C precedence (higher binds tighter)
PREC = {"*": 10, "/": 10, "%": 10, "+": 9, "-": 9, "<<": 8, ">>": 8, "&": 5, "^": 4, "|": 3}
CMPOPS = ["<", "<=", ">", ">=", "==", "!="]


def setup(symbolic):
    global P, H, C, EX
    import spsdk.sbfile.sb2.sly_bd_parser as P
    import spsdk.sbfile.sb2.sb_21_helper as H
    import spsdk.sbfile.sb2.commands as C
    import spsdk.exceptions as EX


def cases(tier):
    q = tier == "quick"
    cs = []
    for op in BINOPS:
        cs.append({"id": f"expr/bin/{op}", "h": "expr", "shape": "bin", "ops": [op]})
    for a, b in itertools.product(BINOPS, repeat=2):
        for shape in ("flat", "left", "right"):
            cs.append({"id": f"expr/{shape}/{a}/{b}", "h": "expr", "shape": shape, "ops": [a, b]})
    if not q:
        for a, b, c in itertools.product(BINOPS, repeat=3):
            cs.append({"id": f"expr/flat3/{a}/{b}/{c}", "h": "expr", "shape": "flat3", "ops": [a, b, c]})
    for u in ("neg", "pos", "subneg", "negparen", "negmul"):
        cs.append({"id": f"expr/unary/{u}", "h": "unary", "u": u})
    for op in CMPOPS:
        cs.append({"id": f"bool/cmp/{op}", "h": "bool", "kind": "cmp", "op": op})
    for k in ("and", "or", "not", "cmp_and_cmp", "arith_cmp", "defined_yes", "defined_no", "paren"):
        cs.append({"id": f"bool/{k}", "h": "bool", "kind": k})
    for k in ("chain", "multi_per_line", "shadow_order", "options", "options_two_blocks", "options_override",
              "options_use_constants"):
        cs.append({"id": f"const/{k}", "h": "const", "kind": k})
    for k in STMTS:
        cs.append({"id": f"stmt/{k}", "h": "stmt", "kind": k, "weight": 2})
    for k in REFUSED:
        cs.append({"id": f"refuse/{k}", "h": "refuse", "kind": k})
    return cs


# ------------------------------------------------------------------------------------------------
def _lits(env, nlit, ranges=None):
    ranges = ranges or {}
    return [env.int(f"L{i}", *ranges.get(i, (0, 0xFFFFFFFF))) for i in range(nlit)]


def _parse(env, text, nlit, ranges=None, lits=None):
    """Run the real lexer on `text` (placeholders 1000+i), swap INT_LITERAL values for the inputs, run the real
    parser.  Returns (parser, literals)."""
    if lits is None:
        lits = _lits(env, nlit, ranges)
    p = P.BDParser()
    p._cleanup()
    p._extern = []
    p._input = text
    def toks():
        # lazily, as BDParser.parse does: the lexer types SOURCE_NAME tokens from what the parser has seen so far
        for t in p._lexer.tokenize(text):
            if t.type == "INT_LITERAL" and isinstance(t.value, int) and 1000 <= t.value < 1000 + nlit:
                t.value = lits[t.value - 1000]
            yield t
    import sly
    sly.Parser.parse(p, toks())
    return p, lits


def _apply(env, op, a, b):
    if op == "+":
        return a + b
    if op == "-":
        return a - b
    if op == "*":
        return a * b
    if op == "/":
        return a // b
    if op == "%":
        return a % b
    if op == "<<":
        return a * (1 << b) if not env.symbolic else a << b
    if op == ">>":
        return a >> b
    if op == "&":
        return a & b
    if op == "|":
        return a | b
    if op == "^":
        return a ^ b
    raise ValueError(op)


def _guard(env, op, a, b):
    """language preconditions for one application: shift counts 0..31, non-zero divisor, / and % on non-negative."""
    if op in ("<<", ">>"):
        env.assume(env.And(b >= 0, b <= 31))
    if op in ("/", "%"):
        env.assume(env.And(b > 0, a >= 0))


def _tree(shape, ops):
    """reference tree as nested tuples over literal indices, by C precedence / left associativity."""
    if shape == "bin":
        return (ops[0], 0, 1), "{0} %s {1}" % ops[0]
    a, b = ops[0], ops[1]
    if shape == "left":
        return (b, (a, 0, 1), 2), "({0} %s {1}) %s {2}" % (a, b)
    if shape == "right":
        return (a, 0, (b, 1, 2)), "{0} %s ({1} %s {2})" % (a, b)
    if shape == "flat":
        txt = "{0} %s {1} %s {2}" % (a, b)
        if PREC[a] >= PREC[b]:
            return (b, (a, 0, 1), 2), txt
        return (a, 0, (b, 1, 2)), txt
    if shape == "flat3":
        # operator-precedence parse of  0 a 1 b 2 c 3
        vals, opst = [0], []
        seq = [(ops[0], 1), (ops[1], 2), (ops[2], 3)]
        for o, v in seq:
            while opst and PREC[opst[-1]] >= PREC[o]:
                r = vals.pop()
                l = vals.pop()
                vals.append((opst.pop(), l, r))
            opst.append(o)
            vals.append(v)
        while opst:
            r = vals.pop()
            l = vals.pop()
            vals.append((opst.pop(), l, r))
        return vals[0], "{0} %s {1} %s {2} %s {3}" % tuple(ops)
    raise ValueError(shape)


def _eval(env, t, lits):
    if isinstance(t, int):
        return lits[t]
    op, l, r = t
    a, b = _eval(env, l, lits), _eval(env, r, lits)
    _guard(env, op, a, b)
    return _apply(env, op, a, b)


def h_expr(env, c):
    tree, tpl = _tree(c["shape"], c["ops"])
    n = len(c["ops"]) + 1
    text = "constants {\n r = %s;\n}\nsection (0) {\n}\n" % tpl.format(*[1000 + i for i in range(n)])
    # literals that are direct shift counts / divisors get the documented ranges up front (keeps paths few)
    ranges = {}

    def leaves(t):
        return [t] if isinstance(t, int) else leaves(t[1]) + leaves(t[2])

    def mark(t):
        if isinstance(t, int):
            return
        op, l, r = t
        if op in ("<<", ">>"):
            # literals below a shift count: small values (the count itself is assumed 0..31 by the reference)
            for i in leaves(r):
                ranges[i] = (0, 31)
        if isinstance(r, int) and op in ("/", "%"):
            ranges.setdefault(r, (1, 0xFFFFFFFF))
        mark(l)
        mark(r)
    mark(tree)
    # reference first (adds the language preconditions as assumptions), then the real parser on the same inputs
    lits = _lits(env, n, ranges)
    want = _eval(env, tree, lits)
    p, lits = _parse(env, text, n, lits=lits)
    got = [v.value for v in p._variables if v.name == "r"]
    env.prove(len(got) == 1, "expr.constant_defined_once")
    env.prove(got[0] == want, "expr.value_equals_reference")
    env.prove(p._parse_error is False, "expr.no_parse_error")
    env.observe("r", got[0])


def h_unary(env, c):
    u = c["u"]
    tpl, ref, n = {
        "neg": ("-{0}", lambda l: -l[0], 1),
        "pos": ("+{0}", lambda l: l[0], 1),
        "subneg": ("{0} - -{1}", lambda l: l[0] + l[1], 2),
        "negparen": ("-({0} + {1})", lambda l: -(l[0] + l[1]), 2),
        "negmul": ("-{0} * {1}", lambda l: -(l[0] * l[1]), 2),
    }[u]
    text = "constants {\n r = %s;\n}\nsection (0) {\n}\n" % tpl.format(*[1000 + i for i in range(n)])
    p, lits = _parse(env, text, n)
    got = [v.value for v in p._variables if v.name == "r"]
    env.prove(len(got) == 1 and p._parse_error is False, "expr.unary_parses")
    env.prove(got[0] == ref(lits), "expr.unary_value_equals_reference")
    env.observe("r", got[0])


def _truth(env, v):
    if isinstance(v, bool):
        return v
    if isinstance(v, int):
        return v != 0
    if env.symbolic:
        from symx.core import SymBool, SymInt
        if isinstance(v, SymBool):
            return v
        if isinstance(v, SymInt):
            return v != 0
    return bool(v)


def h_bool(env, c):
    k = c["kind"]
    pre = ""
    if k == "cmp":
        op = c["op"]
        tpl, n = "{0} %s {1}" % op, 2
        ref = lambda l: {"<": l[0] < l[1], "<=": l[0] <= l[1], ">": l[0] > l[1], ">=": l[0] >= l[1],
                         "==": l[0] == l[1], "!=": l[0] != l[1]}[op]
    elif k == "and":
        tpl, n, ref = "{0} && {1}", 2, lambda l: env.And(l[0] != 0, l[1] != 0)
    elif k == "or":
        tpl, n, ref = "{0} || {1}", 2, lambda l: env.Or(l[0] != 0, l[1] != 0)
    elif k == "not":
        tpl, n, ref = "!{0}", 1, lambda l: l[0] == 0
    elif k == "cmp_and_cmp":
        tpl, n, ref = "{0} < {1} && {2} >= {3}", 4, lambda l: env.And(l[0] < l[1], l[2] >= l[3])
    elif k == "arith_cmp":
        tpl, n, ref = "{0} + {1} > {2}", 3, lambda l: l[0] + l[1] > l[2]
    elif k == "paren":
        tpl, n, ref = "({0} == {1}) || ({2} != {3})", 4, lambda l: env.Or(l[0] == l[1], l[2] != l[3])
    elif k == "defined_yes":
        pre, tpl, n, ref = " x = {0};\n", "defined(x)", 1, lambda l: True
    elif k == "defined_no":
        pre, tpl, n, ref = " x = {0};\n", "defined(y)", 1, lambda l: False
    ph = [1000 + i for i in range(n)]
    text = "constants {\n%s r = %s;\n}\nsection (0) {\n}\n" % (pre.format(*ph), tpl.format(*ph))
    p, lits = _parse(env, text, n)
    got = [v.value for v in p._variables if v.name == "r"]
    env.prove(len(got) == 1 and p._parse_error is False, "bool.parses")
    env.prove(env.Iff(_truth(env, got[0]), ref(lits)), "bool.truth_equals_reference")


def h_const(env, c):
    k = c["kind"]
    if k == "chain":
        text = "constants {\n a = 1000;\n b = a + 1001;\n c = b * a;\n d = c - b;\n}\nsection (0) {\n jump d;\n}\n"
        p, l = _parse(env, text, 2)
        vals = {v.name: v.value for v in p._variables}
        a, b = l[0], l[0] + l[1]
        cc = b * a
        env.prove(env.And(vals["a"] == a, vals["b"] == b, vals["c"] == cc, vals["d"] == cc - b), "const.refer_to_earlier_constants")
        cmd = p._bd_file["sections"][0]["commands"][0]
        env.prove(cmd["jump"]["address"] == cc - b, "const.constant_used_as_operand")
    elif k == "multi_per_line":
        text = "constants { a = 1000; b = 1001; c = a ^ b; }\nsection (0) {\n}\n"
        p, l = _parse(env, text, 2)
        vals = {v.name: v.value for v in p._variables}
        env.prove(env.And(vals["a"] == l[0], vals["b"] == l[1], vals["c"] == (l[0] ^ l[1])), "const.several_definitions_per_line")
    elif k == "shadow_order":
        text = "constants {\n a = 1000;\n}\nconstants {\n b = a | 1001;\n}\nsection (0) {\n}\n"
        p, l = _parse(env, text, 2)
        vals = {v.name: v.value for v in p._variables}
        env.prove(vals["b"] == (l[0] | l[1]), "const.across_blocks")
    elif k == "options":
        text = "options {\n flags = 1000;\n buildNumber = 1001 + 1;\n}\nsection (0) {\n}\n"
        p, l = _parse(env, text, 2)
        opt = p._bd_file["options"]
        env.prove(opt["flags"] == l[0], "const.option_value")
        env.prove(opt["buildNumber"] == l[1] + 1, "const.option_expression")
    elif k == "options_two_blocks":
        # the language allows several options blocks (docs/usage/elf2sb.md): every definition reaches the result
        text = ("options {\n flags = 1000;\n buildNumber = 1001;\n}\nconstants {\n a = 1002;\n}\n"
                "options {\n secureBinaryVersion = 1003;\n}\noptions {\n}\nsection (0) {\n}\n")
        p, l = _parse(env, text, 4)
        opt = p._bd_file["options"]
        env.prove(env.And("flags" in opt, "buildNumber" in opt, "secureBinaryVersion" in opt, len(opt) == 3),
                  "const.options_of_every_block_kept")
        env.prove(env.And(opt.get("flags") == l[0], opt.get("buildNumber") == l[1], opt.get("secureBinaryVersion") == l[3]),
                  "const.options_of_every_block_have_their_values")
    elif k == "options_override":
        text = "options {\n flags = 1000;\n buildNumber = 1001;\n}\noptions {\n flags = 1002;\n}\nsection (0) {\n}\n"
        p, l = _parse(env, text, 3)
        opt = p._bd_file["options"]
        env.prove(env.And(opt.get("flags") == l[2], opt.get("buildNumber") == l[1], len(opt) == 2),
                  "const.later_options_block_redefines_only_what_it_names")
    elif k == "options_use_constants":
        text = ("constants {\n a = 1000;\n}\noptions {\n flags = a & 1001;\n}\nconstants {\n b = a - 1002;\n}\n"
                "options {\n buildNumber = b;\n}\nsection (0) {\n jump b;\n}\n")
        p, l = _parse(env, text, 3)
        opt = p._bd_file["options"]
        env.prove(env.And(opt.get("flags") == (l[0] & l[1]), opt.get("buildNumber") == l[0] - l[2]),
                  "const.options_resolve_constants_of_earlier_blocks")
        env.prove(p._bd_file["sections"][0]["commands"][0]["jump"]["address"] == l[0] - l[2], "const.constant_used_as_operand")


# statement skeletons: text, number of literals, literal ranges, checker(env, helper-built command, literals)
def _chk_erase(env, cmd, l, length=None, flags=0, mem=0):
    # ROM format of the flags word: bits 0-3 erase flags, bits 4-7 memory group id, bits 8-15 memory device id
    ok = [cmd.address == l[0], cmd.flags % 16 == flags, cmd.mem_id == mem,
          cmd.flags // 16 % 16 == mem // 256 % 16, cmd.flags // 256 % 256 == mem % 256]
    ok.append(cmd.length == (length if length is not None else 0))
    return env.And(*ok)


STMTS = {
    "erase_addr": ("erase 1000;", 1, {}, lambda env, cmd, l: env.And(isinstance(cmd, C.CmdErase), _chk_erase(env, cmd, l))),
    "erase_range": ("erase 1000..1001;", 2, {},
                    lambda env, cmd, l: env.And(isinstance(cmd, C.CmdErase), _chk_erase(env, cmd, l, l[1] - l[0]))),
    "erase_mem_range": ("erase @288 1000..1001;", 2, {},
                        lambda env, cmd, l: env.And(isinstance(cmd, C.CmdErase), _chk_erase(env, cmd, l, l[1] - l[0], mem=288))),
    "erase_symmem_range": ("erase @1002 1000..1001;", 3, {2: (0, 0xFFFF)},
                           lambda env, cmd, l: env.And(cmd.address == l[0], cmd.length == l[1] - l[0], cmd.mem_id == l[2])),
    "erase_all": ("erase all;", 0, {}, lambda env, cmd, l: env.And(isinstance(cmd, C.CmdErase), cmd.address == 0,
                                                                  cmd.flags % 16 == 1, cmd.mem_id == 0)),
    "erase_mem_all": ("erase @8 all;", 0, {}, lambda env, cmd, l: env.And(cmd.address == 0, cmd.flags % 16 == 1, cmd.mem_id == 8)),
    "erase_unsecure_all": ("erase unsecure all;", 0, {}, lambda env, cmd, l: env.And(cmd.address == 0, cmd.flags % 16 == 2)),
    "erase_expr": ("erase 1000 + 1001..1000 + 1001 + 1002;", 3, {},
                   lambda env, cmd, l: env.And(cmd.address == l[0] + l[1], cmd.length == l[2])),
    "fill_addr": ("load 1000 > 1001;", 2, {0: (0x01000000, 0xFFFFFFFF)},
                  lambda env, cmd, l: env.And(isinstance(cmd, C.CmdFill), cmd.address == l[1], cmd._header.count == 4,
                                              env.from_bytes(cmd.pattern, "big") == l[0])),
    "fill_range": ("load 1000 > 1001..1001 + 1002 * 4;", 3, {0: (0x01000000, 0xFFFFFFFF), 2: (1, 0xFFFF)},
                   lambda env, cmd, l: env.And(isinstance(cmd, C.CmdFill), cmd.address == l[1], cmd._header.count == l[2] * 4,
                                               env.from_bytes(cmd.pattern, "big") == l[0])),
    "fill_byte_pattern": ("load 1000 > 1001;", 2, {0: (1, 0xFF)},
                          lambda env, cmd, l: env.And(cmd.address == l[1], env.from_bytes(cmd.pattern, "big") == l[0] * 0x01010101)),
    "fill_half_pattern": ("load 1000 > 1001;", 2, {0: (0x100, 0xFFFF)},
                          lambda env, cmd, l: env.And(cmd.address == l[1], env.from_bytes(cmd.pattern, "big") == l[0] * 0x00010001)),
    # a blob is taken as unsigned 32-bit value(s) and emitted little-endian (SB21Helper._load: "<L")
    "load_blob4": ("load {{ 11 22 33 44 }} > 1000;", 1, {},
                   lambda env, cmd, l: env.And(isinstance(cmd, C.CmdLoad), cmd.address == l[0], cmd.mem_id == 0,
                                               env.bytes_eq(cmd.data, (0x11223344).to_bytes(4, "little")))),
    "load_mem_blob": ("load @288 {{ aa bb cc dd }} > 1000;", 1, {},
                      lambda env, cmd, l: env.And(isinstance(cmd, C.CmdLoad), cmd.address == l[0], cmd.mem_id == 288,
                                                  env.bytes_eq(cmd.data, (0xaabbccdd).to_bytes(4, "little")))),
    # the documented example "load an eight byte blob"
    "load_blob8": ("load {{ ff 2e 90 07 77 5f 1d 20 }} > 1000;", 1, {},
                   lambda env, cmd, l: env.And(isinstance(cmd, C.CmdLoad), cmd.address == l[0], len(cmd.data) == 8)),
    "load_fuse_word": ("load fuse 1000 > 1001;", 2, {0: (1, 0xFFFFFFFF)},
                       lambda env, cmd, l: env.And(isinstance(cmd, C.CmdProg), cmd.address == l[1], cmd.data_word1 == l[0],
                                                   cmd.mem_id == 4)),
    "load_file": ("load myImage > 1000;", 1, {},
                  lambda env, cmd, l: env.And(isinstance(cmd, C.CmdLoad), cmd.address == l[0], cmd.mem_id == 0,
                                              env.bytes_eq(cmd.data, FILEDATA))),
    "load_mem_file": ("load @288 myImage > 1000;", 1, {},
                      lambda env, cmd, l: env.And(isinstance(cmd, C.CmdLoad), cmd.address == l[0], cmd.mem_id == 288,
                                                  env.bytes_eq(cmd.data, FILEDATA))),
    "load_symmem_file": ("load @1001 myImage > 1000;", 2, {1: (0, 0xFFF)},
                         lambda env, cmd, l: env.And(isinstance(cmd, C.CmdLoad), cmd.address == l[0], cmd.mem_id == l[1],
                                                     env.bytes_eq(cmd.data, FILEDATA))),
    "load_ident_mem_file": ("load sdcard myImage > 1000;", 1, {},
                            lambda env, cmd, l: env.And(isinstance(cmd, C.CmdLoad), cmd.address == l[0], cmd.mem_id == 0x120,
                                                        env.bytes_eq(cmd.data, FILEDATA))),
    "enable": ("enable @9 1000;", 1, {}, lambda env, cmd, l: env.And(isinstance(cmd, C.CmdMemEnable), cmd.address == l[0],
                                                                     cmd.mem_id == 9, cmd.size == 4)),
    "jump": ("jump 1000;", 1, {}, lambda env, cmd, l: env.And(isinstance(cmd, C.CmdJump), cmd.address == l[0],
                                                             cmd.argument == 0, cmd.spreg is None)),
    "jump_arg": ("jump 1000 (1001);", 2, {}, lambda env, cmd, l: env.And(cmd.address == l[0], cmd.argument == l[1],
                                                                        cmd.spreg is None)),
    "jump_sp": ("jump_sp 1000 1001 (1002);", 3, {},
                lambda env, cmd, l: env.And(isinstance(cmd, C.CmdJump), cmd.spreg is not None, cmd.spreg == l[0],
                                            cmd.address == l[1], cmd.argument == l[2])),
    "version_sec": ("version_check sec 1000;", 1, {},
                    lambda env, cmd, l: env.And(isinstance(cmd, C.CmdVersionCheck), cmd.version == l[0],
                                                cmd.type == C.VersionCheckType.SECURE_VERSION)),
    "version_nsec": ("version_check nsec 1000;", 1, {},
                     lambda env, cmd, l: env.And(cmd.version == l[0], cmd.type == C.VersionCheckType.NON_SECURE_VERSION)),
    "keystore_to_nv": ("keystore_to_nv @9 1000;", 1, {},
                       lambda env, cmd, l: env.And(isinstance(cmd, C.CmdKeyStoreRestore), cmd.address == l[0],
                                                   cmd.controller_id == 9)),
    "keystore_from_nv": ("keystore_from_nv @9 1000;", 1, {},
                         lambda env, cmd, l: env.And(isinstance(cmd, C.CmdKeyStoreBackup), cmd.address == l[0],
                                                     cmd.controller_id == 9)),
    "two_statements": ("erase 1000..1001;\n load 1002 > 1000;", 3, {2: (0x01000000, 0xFFFFFFFF)}, None),
}

REFUSED = {
    "if_else": "section (0) {\n if 1 == 1 { erase all; } else { reset; }\n}\n",
    "sizeof": "constants {\n r = sizeof(x);\n}\nsection (0) {\n}\n",
    "load_to_dot": "section (0) {\n load 5 > .;\n}\n",
    "load_no_target": "section (0) {\n load 5;\n}\n",
    "garbage": "section (0) {\n erase erase;\n}\n",
    "missing_semi": "section (0) {\n erase all\n}\n",
}


def _commands(p):
    """the loop of BootImageV21.load_from_config that turns the parsed dict into command objects."""
    helper = H.SB21Helper(search_paths=None, zero_filling=False)
    out = []
    for section in p._bd_file["sections"]:
        cmds = []
        for cmd in section["commands"]:
            for key, value in cmd.items():
                cmds.append(helper.get_command(key)(value))
        out.append(cmds)
    return out


SRCFILE = "/repo/tests/sbfile/data/sb2_x/RHKT.bin"
FILEDATA = None


def h_stmt(env, c):
    global FILEDATA
    if FILEDATA is None:
        FILEDATA = open(SRCFILE, "rb").read()
    text, n, ranges, chk = STMTS[c["kind"]]
    prog = "sources {\n myImage = \"%s\";\n}\nsection (0) {\n %s\n}\n" % (SRCFILE, text)
    p, l = _parse(env, prog, n, ranges)
    env.prove(p._parse_error is False, "stmt.parses")
    if c["kind"] in ("erase_range", "erase_mem_range", "erase_symmem_range"):
        env.assume(l[1] >= l[0])
    if c["kind"] == "erase_expr":
        env.assume(l[0] + l[1] <= 0xFFFFFFFF)
    if c["kind"] == "fill_range":
        env.assume(l[1] + l[2] * 4 <= 0xFFFFFFFF)
    secs = _commands(p)
    env.prove(len(secs) == 1, "stmt.one_section")
    if chk is None:
        env.prove(len(secs[0]) == 2, "stmt.one_command_per_statement")
        env.prove(env.And(isinstance(secs[0][0], C.CmdErase), isinstance(secs[0][1], C.CmdFill),
                          secs[0][0].address == l[0], secs[0][1].address == l[0]), "stmt.order_and_operands")
        return
    env.prove(len(secs[0]) == 1, "stmt.one_command_per_statement")
    env.prove(chk(env, secs[0][0], l), "stmt.operands_as_stated")


def h_refuse(env, c):
    text = REFUSED[c["kind"]]
    p = P.BDParser()
    import io
    import contextlib
    with contextlib.redirect_stdout(io.StringIO()):
        try:
            r = p.parse(text)
        except EX.SPSDKError:
            r = None
    env.prove(r is None, "refuse.unsupported_construct_is_rejected")


def run(env, case):
    globals()["h_" + case["h"]](env, case)

"""C17 - secrets SPSDK invents are fresh for every artifact.

The RNG is a stub returning fresh symbolic bytes tagged with the phase in which they were drawn (module import /
construction 1 / construction 2).  For every self-chosen secret of the second artifact the solver decides that
(a) it is not determined by draws made before its construction began (two RNG outcomes that agree on all earlier
draws give different secrets), (b) it is not forced equal to the first artifact's secret, (c) it IS a draw made during
its own construction, up to the documented masks."""
import os
import shutil
import tempfile

PROPERTY = "C17"
NAME = "c17_fresh"
LOGIC = "bv"
ENCODES = [
    "spsdk.sbfile.sb2.images.SBV2xAdvancedParams.__init__", "spsdk.sbfile.sb2.images.SBV2xAdvancedParams._create_nonce",
    "spsdk.sbfile.sb2.images.BootImageV20.__init__", "spsdk.sbfile.sb2.images.BootImageV21.__init__",
    "spsdk.image.mbi.mbi.MasterBootImage.__init__", "spsdk.image.mbi.mbi.create_mbi_class",
    "spsdk.image.mbi.mbi_mixin.Mbi_MixinCtrInitVector.ctr_init_vector",
    "spsdk.image.mbi.mbi_mixin.Mbi_MixinCtrInitVector.mix_load_from_config",
    "spsdk.utils.crypto.otfad.KeyBlob.__init__", "spsdk.utils.crypto.iee.IeeKeyBlob.__init__",
    "spsdk.image.bee.BeeProtectRegionBlock.__init__", "spsdk.image.bee.BeeKIB.__init__", "spsdk.image.bee.BeeRegionHeader.__init__",
    "spsdk.image.hab.segments.CsfHabSegment.get_dek_from_config", "spsdk.image.hab.segments.CsfHabSegment.generate_nonce",
    "spsdk.utils.misc.load_hex_string", "spsdk.crypto.rng.random_bytes",
]
BOUNDS = ("a parent that built an SB2.1 image forks two workers which each build one artifact (12 kinds); every ordered pair (first artifact kind, second artifact kind) over 14 artifact kinds in one interpreter; the RNG "
          "outcome of every draw is symbolic; module import itself runs under the RNG stub so that import-time and "
          "definition-time draws are tagged")
OUTSIDE = ("quality of secrets.token_bytes; 'across interpreter restarts' is decided as 'no secret depends on an "
           "import-phase draw'; longer histories than two constructions")
STUBS = ["secrets.token_bytes as imported by spsdk.crypto.rng -> fresh symbolic bytes tagged with the drawing phase (the real "
         "random_bytes runs on top of it)", "fork(): symbolically a copy of the module-level objects of spsdk.crypto.rng taken at "
         "the fork point and restored for each worker; concretely a real os.fork()",
         "hab.segments.write_file -> recorder (the DEK file is not written symbolically)"]
MUST_REACH = ["c17\\..*"]
OPTS = {"quick": {"case_timeout_s": 200}, "thorough": {"case_timeout_s": 600}}

PHASE = ["import"]
DRAWS = []          # (phase, SymBytes) in symbolic mode
COUNT = [0]
KINDS = ["sbv2x_params", "sb21", "sb20", "mbi_enc_direct", "mbi_enc_config", "otfad_keyblob", "iee_keyblob", "bee_prdb", "bee_kib",
         "bee_header", "hab_nonce", "hab_dek", "hab_dek_reuse_flag_quoted_zero", "hex_none"]
TMP = None


def setup(symbolic):
    global SYM, IMG, MBI, MM, OT, IEE, BEE, HS, M, TMP
    SYM = symbolic
    if symbolic:
        from symx import loader
        from symx.core import SymInt
        from symx.sbytes import SymBytes
        import z3
        import spsdk.crypto.rng as RNG

        def token_bytes(length=32):
            COUNT[0] += 1
            name = f"rng.{PHASE[0]}.{COUNT[0]}"
            b = SymBytes([SymInt._raw(z3.ZeroExt(1, z3.BitVec(f"{name}[{i}]", 8)), 0, 255) for i in range(length)])
            DRAWS.append((PHASE[0], b))
            return b
        # the stub sits at the system generator: spsdk.crypto.rng.random_bytes itself is executed
        RNG.token_bytes = token_bytes
    PHASE[0] = "import"
    import spsdk.sbfile.sb2.images as IMG
    import spsdk.image.mbi.mbi as MBI
    import spsdk.image.mbi.mbi_mixin as MM
    import spsdk.utils.crypto.otfad as OT
    import spsdk.utils.crypto.iee as IEE
    import spsdk.image.bee as BEE
    import spsdk.image.hab.segments as HS
    import spsdk.utils.misc as M
    # the encrypted MBI class is created from the database here: class creation copies NEEDED_MEMBERS
    global ENC_CLS
    ENC_CLS = MBI.get_mbi_classes("mimxrt595s")["mimxrt595s_load_to_ram_encrypted"][0] if "mimxrt595s" in MBI.mbi_get_supported_families() \
        else MBI.get_mbi_classes("mimxrt533s")["mimxrt533s_load_to_ram_encrypted"][0]
    if symbolic:
        HS.write_file = lambda data, path, mode="w", encoding="utf-8": len(data)
    PHASE[0] = "after_import"


class HabCfg:
    """duck-typed HabConfig: only the install-secret-key parameters"""

    def __init__(self, params):
        self.params = params

        class Cmds:
            def contains(s, cmd):
                return True

            def get_command_params(s, cmd):
                return params
        self.commands = Cmds()


def make(kind, tmpdir):
    """construct one artifact through the public classes WITHOUT supplying any secret; return {name: (bytes, mask)}"""
    full = None
    if kind == "sbv2x_params":
        p = IMG.SBV2xAdvancedParams()
        return {"dek": (p.dek, full), "mac": (p.mac, full), "nonce": (p.nonce, {9: 0x7F, 13: 0x7F}), "padding": (p.padding, full)}
    if kind == "sb21":
        i = IMG.BootImageV21(bytes(32))
        return {"dek": (i.dek, full), "mac": (i.mac, full), "nonce": (i.header.nonce, {9: 0x7F, 13: 0x7F})}
    if kind == "sb20":
        i = IMG.BootImageV20(False, bytes(32))
        return {"dek": (i.dek, full), "mac": (i.mac, full), "nonce": (i.header.nonce, {9: 0x7F, 13: 0x7F})}
    if kind == "mbi_enc_direct":
        o = ENC_CLS(family="mimxrt533s")
        return {"ctr_iv": (o.ctr_init_vector, full)}
    if kind == "mbi_enc_config":
        o = ENC_CLS(family="mimxrt533s")
        MM.Mbi_MixinCtrInitVector.mix_load_from_config(o, {})
        return {"ctr_iv": (o.ctr_init_vector, full)}
    if kind == "otfad_keyblob":
        k = OT.KeyBlob(start_addr=0x08001000, end_addr=0x080013FF)
        return {"key": (k.key, full), "ctr": (k.ctr_init_vector, full), "key_and_ctr": (k.key + k.ctr_init_vector, full)}
    if kind == "iee_keyblob":
        a = IEE.IeeKeyBlobAttribute(IEE.IeeKeyBlobLockAttributes.UNLOCK, IEE.IeeKeyBlobKeyAttributes.CTR128XTS256,
                                    IEE.IeeKeyBlobModeAttributes.AesCTRWAddress)
        k = IEE.IeeKeyBlob(a, 0x30000000, 0x30000FFF)
        return {"key1": (k.key1, full), "key2": (k.key2, full)}
    if kind == "bee_prdb":
        b = BEE.BeeProtectRegionBlock()
        return {"counter": (b.counter, {12: 0, 13: 0, 14: 0, 15: 0})}
    if kind == "bee_kib":
        b = BEE.BeeKIB()
        return {"kib_key": (b.kib_key, full), "kib_iv": (b.kib_iv, full)}
    if kind == "bee_header":
        b = BEE.BeeRegionHeader()
        return {"sw_key": (b._sw_key, full)}
    if kind == "hab_nonce":
        return {"nonce": (HS.CsfHabSegment.generate_nonce(bytes(100)), full)}
    if kind in ("hab_dek", "hab_dek_reuse_flag_quoted_zero"):
        path = os.path.join(tmpdir, "dek.bin")
        with open(path, "wb") as f:
            f.write(bytes(range(16)))        # a DEK left behind by an earlier build
        params = {"SecretKey_Name": "dek.bin", "SecretKey_Length": 128}
        if kind.endswith("quoted_zero"):
            params["SecretKey_ReuseDek"] = "0"   # quoted BD value: reuse is switched OFF
        return {"dek": (HS.CsfHabSegment.get_dek_from_config(HabCfg(params), [tmpdir]), full)}
    if kind == "hex_none":
        return {"key": (M.load_hex_string(None, 16), full)}
    raise ValueError(kind)


def _rng_state():
    """what a fork() duplicates, as far as the random source is concerned: the module-level objects of spsdk.crypto.rng"""
    import copy
    import types
    import spsdk.crypto.rng as RNG
    return {k: copy.deepcopy(v) for k, v in vars(RNG).items()
            if not k.startswith("__") and not callable(v) and not isinstance(v, (types.ModuleType, type))}


def _rng_restore(state):
    import copy
    import spsdk.crypto.rng as RNG
    vars(RNG).update(copy.deepcopy(state))


def _in_child(kind, tmpdir):
    """concretely: a real fork(); the child builds the artifact and reports its secrets"""
    import pickle
    r, w = os.pipe()
    pid = os.fork()
    if pid == 0:
        code = 1
        try:
            os.close(r)
            out = {k: bytes(v[0]) for k, v in make(kind, tmpdir).items()}
            with os.fdopen(w, "wb") as f:
                pickle.dump(out, f)
            code = 0
        finally:
            os._exit(code)
    os.close(w)
    with os.fdopen(r, "rb") as f:
        data = f.read()
    os.waitpid(pid, 0)
    return pickle.loads(data)


def h_fork(env, c):
    """A parent process that has already drawn random values forks two workers; each builds an artifact of its own.
    Every secret of a worker's artifact is a draw made by that worker after the fork."""
    tmpdir = tempfile.mkdtemp(prefix="c17_")
    try:
        if not env.symbolic:
            make(c["first"], tmpdir)
            a, b = _in_child(c["second"], tmpdir), _in_child(c["second"], tmpdir)
            for name in sorted(a):
                env.prove(a[name] != b[name], "c17.fork.secret_is_a_draw_made_after_the_fork_up_to_documented_mask")
                env.satisfiable(a[name] != b[name], "c17.fork.workers_not_forced_to_the_same_secret")
            return
        del DRAWS[:]
        PHASE[0] = "A1"
        make(c["first"], tmpdir)
        state = _rng_state()
        PHASE[0] = "W1"
        s1 = make(c["second"], tmpdir)
        _rng_restore(state)
        PHASE[0] = "W2"
        s2 = make(c["second"], tmpdir)
        PHASE[0] = "after"
        from symx.core import Or, And
        from symx.sbytes import items_of
        w2 = [b for ph, b in DRAWS if ph == "W2"]
        for name in sorted(s2):
            sec, mask = s2[name]
            items = items_of(sec)
            if name == "key_and_ctr":
                cands = [And(*[Or(*[x == d for b in w2 for d in b.items]) for x in items])]
            else:
                cands = []
                live = [i for i in range(len(items)) if not mask or mask.get(i, 0xFF) != 0]
                for b in w2:
                    if len(b.items) < len(live):
                        continue
                    conj = []
                    for i, x in enumerate(items):
                        m = 0xFF if not mask or i not in mask else mask[i]
                        conj.append(x == ((b.items[i] & m) if (m and i < len(b.items)) else 0))
                    cands.append(And(*conj))
            env.prove(Or(*cands) if cands else False, "c17.fork.secret_is_a_draw_made_after_the_fork_up_to_documented_mask")
            o = items_of(s1[name][0])
            env.satisfiable(Or(*[x != y for x, y in zip(items, o)]) if len(o) == len(items) else True,
                            "c17.fork.workers_not_forced_to_the_same_secret")
    finally:
        shutil.rmtree(tmpdir, ignore_errors=True)


def cases(tier):
    cs = []
    for k2 in KINDS:
        if k2.startswith("hab_dek"):
            continue          # (the DEK file left behind in the shared directory is the subject of the pair cases)
        cs.append({"id": f"fork/sb21->{k2}|{k2}", "h": "fork", "first": "sb21", "second": k2})
    for k2 in KINDS:
        for k1 in KINDS:
            if tier == "quick" and k1 != k2 and KINDS.index(k1) % 3 != KINDS.index(k2) % 3:
                continue
            cs.append({"id": f"{k1}->{k2}", "h": "pair", "first": k1, "second": k2})
    return cs


def h_pair(env, c):
    tmpdir = tempfile.mkdtemp(prefix="c17_")
    try:
        if env.symbolic:
            del DRAWS[:]      # import-phase variables stay valid z3 constants; per-path draws start here
            PHASE[0] = "A1"
        s1 = make(c["first"], tmpdir)
        if env.symbolic:
            PHASE[0] = "A2"
        s2 = make(c["second"], tmpdir)
        if env.symbolic:
            PHASE[0] = "after"
            check_symbolic(env, c, s1, s2)
        else:
            # concretely: two further independent constructions of the second kind must not agree on any secret
            s3 = make(c["second"], tmpdir)
            for name in sorted(s2):
                a, b = bytes(s2[name][0]), bytes(s3[name][0])
                env.satisfiable(a != b, "c17.secret_not_determined_by_earlier_draws")
                if c["first"] == c["second"]:
                    env.satisfiable(bytes(s1[name][0]) != a, "c17.not_forced_equal_to_previous_artifact")
                env.prove(a != b, "c17.secret_is_a_draw_of_its_own_construction_up_to_documented_mask")
    finally:
        shutil.rmtree(tmpdir, ignore_errors=True)


def check_symbolic(env, c, s1, s2):
    import z3
    from symx.core import SymInt, lift, Or, And
    from symx.sbytes import items_of
    a2 = [b for ph, b in DRAWS if ph == "A2"]
    a2_vars = []
    for b in a2:
        for it in b.items:
            a2_vars.append(it.e.arg(0))        # the 8-bit constant under the zero extension
    fresh = [(v, z3.BitVec(str(v) + "'", 8)) for v in a2_vars]
    for name in sorted(s2):
        sec, mask = s2[name]
        items = items_of(sec)
        terms = [lift(x).e if isinstance(x, SymInt) else None for x in items]
        # (a) two RNG outcomes that agree on every draw made before construction 2 began give different secrets
        diffs = []
        for t in terms:
            if t is None:
                continue
            t2 = z3.substitute(t, *fresh) if fresh else t
            if not z3.eq(t, t2):
                from symx.core import SymBool
                diffs.append(SymBool(t != t2))
        env.satisfiable(Or(*diffs) if diffs else False, "c17.secret_not_determined_by_earlier_draws")
        # (b) not forced equal to the first artifact's secret of the same name
        if c["first"] == c["second"]:
            o = items_of(s1[name][0])
            env.satisfiable(Or(*[x != y for x, y in zip(items, o)]) if len(o) == len(items) else True,
                            "c17.not_forced_equal_to_previous_artifact")
        # (c) it is a draw made during its own construction, up to the documented mask (e.g. SB2 nonce bits 31/63)
        cands = []
        live = [i for i in range(len(items)) if not mask or mask.get(i, 0xFF) != 0]
        for b in a2:
            if len(b.items) < len(live):
                continue
            conj = []
            for i, x in enumerate(items):
                m = 0xFF if not mask or i not in mask else mask[i]
                conj.append(x == ((b.items[i] & m) if (m and i < len(b.items)) else 0))
            cands.append(And(*conj))
        if name == "key_and_ctr":
            # the (key, counter) pair of one key blob: both halves are own-construction draws
            cands = [And(*[Or(*[x == d for b in a2 for d in b.items]) for x in items])]
        env.prove(Or(*cands) if cands else False, "c17.secret_is_a_draw_of_its_own_construction_up_to_documented_mask")


def run(env, case):
    globals()["h_" + case["h"]](env, case)

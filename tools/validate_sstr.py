#!/usr/bin/env python3
"""Differential validation of the string models in symx/sstr.py against CPython (run with /verif/.venv/bin/python).
The same code paths the symbolic run takes are executed on concrete characters and compared with re.match / int()."""
import random
import re
import sys

sys.path.insert(0, "/verif")
from symx.sstr import SymStr, sym_match, sym_int          # noqa: E402
from symx.core import Unsupported                         # noqa: E402

PATS = [r"(?P<prefix>0[box])?(?P<number>[0-9a-f_]+)(?P<suffix>[ul]{0,3})$", r"(?P<prefix>0[box])?(?P<number>[0-9a-f_]+)(?P<suffix>[ul]{0,3})",
        r"(a|ab)(c|bcd)(d*)", r"\s*(\d+)\s*(k|m)?b?$", r"(x+x+)+y", r"[^0-9]*(\d{2,3})?.*z", r"(?:0x)?([0-9a-f]+?)(ff)?$"]


def main():
    random.seed(20260926)
    bad = n = 0
    for pat in PATS:
        for length in range(0, 8):
            for _ in range(600):
                s = "".join(random.choice("01af_xbul \n9yzcdkm") for _ in range(length))
                m = re.match(pat, s)
                try:
                    sm = sym_match(pat, SymStr([ord(c) for c in s]))
                except Unsupported:
                    continue
                n += 1
                if (m is None) != (sm is None):
                    bad += 1
                    print("MISMATCH accept", pat, repr(s))
                elif m:
                    g2 = tuple(None if x is None else (x if isinstance(x, str) else x.concrete()) for x in sm.groups())
                    if m.groups() != g2 or m.end() != sm.end():
                        bad += 1
                        print("MISMATCH groups", pat, repr(s), m.groups(), g2)
    print("regex cases", n, "mismatches", bad)
    ibad = m = 0
    for base in (2, 8, 10, 16, 36):
        for length in range(0, 7):
            for _ in range(800):
                s = "".join(random.choice("01279afz_xbo+- X") for _ in range(length))
                try:
                    r1 = int(s, base)
                except ValueError:
                    r1 = "ERR"
                try:
                    r2 = sym_int(SymStr([ord(c) for c in s]), base)
                except ValueError:
                    r2 = "ERR"
                m += 1
                if r1 != r2:
                    ibad += 1
                    print("INT MISMATCH", base, repr(s), r1, r2)
    print("int cases", m, "mismatches", ibad)
    return 1 if bad or ibad else 0


if __name__ == "__main__":
    sys.exit(main())

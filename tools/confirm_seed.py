#!/usr/bin/env python3
"""Confirm a seeded change in a scratch worktree and file it under /verif/seeded/<name>/.
usage: confirm_seed.py /tmp/seed_out/C20_1 [name]"""
import json, os, shutil, subprocess, sys, tempfile, xml.etree.ElementTree as ET

src = sys.argv[1].rstrip("/")
name = sys.argv[2] if len(sys.argv) > 2 else os.path.basename(src)
wt = tempfile.mkdtemp(prefix="confirm_", dir="/tmp")
os.rmdir(wt)
run = lambda *a, **k: subprocess.run(*a, capture_output=True, text=True, **k)
r = run(["git", "-C", "/repo", "worktree", "add", "--detach", wt, "HEAD"])
assert r.returncode == 0, r.stderr
try:
    shutil.copy("/repo/spsdk/__version__.py", f"{wt}/spsdk/__version__.py")
    shutil.copy(f"{src}/demo.py", f"{wt}/demo_seed.py")
    clean = run(["/venv/bin/python", "demo_seed.py"], cwd=wt, timeout=1800)
    r = run(["git", "apply", f"{src}/patch.diff"], cwd=wt)
    assert r.returncode == 0, "patch does not apply: " + r.stderr
    patched = run(["/venv/bin/python", "demo_seed.py"], cwd=wt, timeout=1800)
    out = tempfile.mktemp(suffix=".xml", dir="/var/tmp")
    run(["/venv/bin/python", "-m", "pytest", "-q", "-p", "no:cacheprovider", "--timeout=900",
         "--continue-on-collection-errors", "-n", "12", f"--junitxml={out}"], cwd=wt)
    passed = set()
    for tc in ET.parse(out).getroot().iter("testcase"):
        if not any(ch.tag in ("failure", "error", "skipped") for ch in tc):
            passed.add(f"{tc.get('classname')}::{tc.get('name')}")
    os.unlink(out)
    sp = set(json.load(open("/root/.vp/BASELINE.json"))["stable_pass"])
    missing = sorted(sp - passed)
    res = {"demo_clean_exit": clean.returncode, "demo_patched_exit": patched.returncode,
           "demo_patched_tail": (patched.stdout + patched.stderr)[-400:],
           "baseline_stable_pass_missing_with_patch": missing[:10], "repo_head": run(["git", "-C", "/repo", "rev-parse", "--short", "HEAD"]).stdout.strip()}
    ok = clean.returncode == 0 and patched.returncode != 0 and not missing
    print(name, "CONFIRMED" if ok else "REJECTED", json.dumps(res)[:700])
    if ok:
        dst = f"/verif/seeded/{name}"
        os.makedirs(dst, exist_ok=True)
        for f in ("patch.diff", "demo.py"):
            shutil.copy(f"{src}/{f}", f"{dst}/{f}")
        meta = json.load(open(f"{src}/meta.json"))
        meta["confirmed_by_me"] = dict(res, what_i_ran="scratch worktree of /repo HEAD: demo on clean tree (exit 0), git apply patch, demo (exit != 0), "
                                       "full baseline suite with patch compared against BASELINE.json stable_pass (none missing)")
        json.dump(meta, open(f"{dst}/meta.json", "w"), indent=1)
finally:
    run(["git", "-C", "/repo", "worktree", "remove", "--force", wt])
    shutil.rmtree(wt, ignore_errors=True)

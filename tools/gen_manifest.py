#!/usr/bin/env python3
"""Regenerates /verif/MANIFEST.json from the table below (single source of truth for the interface)."""
import glob
import json
import os

VERIF = os.path.dirname(os.path.dirname(os.path.abspath(__file__)))

LEVEL_TEXT = ("Bounded symbolic model checking of the real SPSDK code: the functions listed in the evidence are "
              "executed symbolically (symx engine: proxy objects over the unmodified sources loaded from /repo), "
              "every path inside the stated bounds is explored and each obligation is discharged by z3 (unsat = holds "
              "for every input inside the bounds). Counterexamples are replayed on the unmodified code before they "
              "are reported; sampled paths are cross-validated against the implementation on every run.")
NOTE_COMMON = ("Trusted: z3; the symx proxies/shims (validated per run against the real implementation on sampled "
               "paths); stubs listed in the evidence. Bounded: nothing is claimed outside the bounds in the evidence. ")

CLAIMED = {
    "C20": dict(
        technique="symbolic execution of the real helpers (symx) + z3 (QF_BV / LIA-NIA) verdict per path; number grammar: "
                  "the characters of the string are solver variables and the regular expression the real code passes to "
                  "re.match is run by a backtracking matcher with CPython's priority order over CPython's own parse tree",
        note="Out of the claim: reverse_bits, load_hex_string file branch, negative inputs to get_bytes_cnt_of_int, "
             "'rand' pattern; number strings longer than 5 (quick) / 7 (thorough) characters or outside the 20-symbol "
             "alphabet.",
        ref="DESIGN.md section 3 C20"),
}

CLAIMED["C16"] = dict(
    technique="symbolic execution of the real BinaryImage code (symx) + z3 (unbounded Int for validate/len, QF_BV for export "
              "and for save/load of BIN, HEX and S19 files: what SPSDK hands to bincopy and how it rebuilds an image from "
              "bincopy's segments runs symbolically over a sparse-memory contract model of bincopy; the concrete twin run "
              "uses the real bincopy and real files)",
    note="Out of the claim: zero-length sub-images in the overlap clause, explicit size below own binary length, "
         "bincopy's own text rendering / parsing (contract stub), ELF input, BIN files whose content is valid record text, "
         "aligned_start/aligned_length (float).",
    ref="DESIGN.md section 3 C16")
CLAIMED["C11"] = dict(
    technique="symbolic execution of the real Register/RegsBitField/Registers code (symx) + z3 QF_BV, differential "
              "against a bit-array model; verified loop-free summary of get_bytes_cnt_of_int",
    note="Out of the claim: bit-fields on byte-reversed registers, SHIFT_RIGHT fields with non-zero reset, "
         "alt-widths with reversed sub-register order (no database layout), string operands other than enum names, RAW: "
         "texts and rendered numbers (rendering and int(x,16) are an inverse pair; value_to_int of a bare hexadecimal "
         "rendering follows a summary proved against the real grammar in the same run).",
    ref="DESIGN.md section 3 C11")

CLAIMED["C09"] = dict(
    technique="symbolic execution of the real wrappers/Counter/CRC/KDF code (symx) over an ideal-cipher model of the "
              "cryptography API + z3 QF_BV; argument capture for derivation constants",
    note="Out of the claim: that AES/SM4/SHA/HMAC/CMAC/HKDF/key-wrap equal their standards (C library, stubbed); "
         "hash/HMAC/HKDF pass-through wrappers. CRC: messages > 2 bytes are decided on parameters (same circuit family).",
    ref="DESIGN.md section 3 C09")

CLAIMED["C19"] = dict(
    technique="the real BD lexer + LALR parser + semantic actions + SB21Helper executed on program skeletons with "
              "symbolic integer literals (symx) + z3 QF_BV, against a reference evaluator (C precedence)",
    note="Programs are enumerated skeletons (bounded depth); literals are symbolic. Out of the claim: .w/.h/.b "
         "suffixes, keyblob/encrypt/keywrap statements, contents of source files.",
    ref="DESIGN.md section 3 C19")

CLAIMED["C04"] = dict(
    technique="symbolic execution of the real SB2.1 builder/parser (symx) over ideal-cipher/UF crypto stubs + z3 QF_BV; "
              "oracle = independent ROM decoder written over the exported symbolic bytes",
    note="Out of the claim: real AES/HMAC/RSA/SHA (stubbed), SB2.0 signed images (certificate section; unsigned SB2.0 is decided), OTFAD key-blob commands, "
         "image_blocks/first_boot_tag_block with the SHA flag, counter wrap (refused; C09).",
    ref="DESIGN.md section 3 C04")

CLAIMED["C05"] = dict(
    technique="symbolic execution of the real SB3.1 builder incl. the real CertBlockV21 (symx) over UF/ideal-cipher crypto "
              "stubs and stub ECC keys + z3 QF_BV; oracle = independent ROM-loader model over the exported symbolic bytes",
    note="Out of the claim: real AES-CBC/CMAC/SHA/ECDSA (stubbed), curve membership of keys, reading of configuration and key "
         "files (the configuration path is decided on a dictionary with the part key as hexadecimal text; certificate block "
         "and signer are prepared objects), DevHSM; one recorded finding (64-digit part key with a zero upper half).",
    ref="DESIGN.md section 3 C05")

CLAIMED["C03"] = dict(
    technique="symbolic execution of the real RKHT / Rot / CertBlockV1 / CertBlockV21 / RootKeyRecord / IskCertificate code "
              "(symx) over stub keys with symbolic numbers and a UF hash + z3 QF_BV: every tool path must hash the "
              "reference byte string",
    note="Out of the claim: keys supplied as PEM/DER/certificate files (ASN.1 inside cryptography), curve membership, "
         "AHAB/HAB SRK table hashes through `Rot` (only the class selected per family and revision is decided for them); assumes SHA-256 does not collide on the root keys where the signer is looked up by hash.",
    ref="DESIGN.md section 3 C03")

CLAIMED["C15"] = dict(
    technique="symbolic execution of the real debug-credential / RoT-meta / DAR / DAC code (symx) over stub keys and UF "
              "hash/signature + z3 QF_BV; field placement checked against independent offsets, signed bytes by argument capture",
    note="Out of the claim: EdgeLock-enclave credentials, real signatures, reading of YAML / key files (key files are a "
         "name -> key table; histories of two credentials with the table replaced in between are decided); assumes a key "
         "hash is never all-zero (RotMetaRSA slot detection).",
    ref="DESIGN.md section 3 C15")

CLAIMED["C01"] = dict(
    technique="symbolic execution of the real MBI builder and parser for one class per mixin composition of the device "
              "database (symx) over stub keys / UF crypto + z3 QF_BV",
    note="Out of the claim: BCA/FCF/CertBlockVx classes, payloads beyond the bounds, real keys/signatures, YAML plumbing, "
         "custom TrustZone in CRC-manifest classes, re-export identity where the image type is ambiguous.",
    ref="DESIGN.md section 3 C01")

CLAIMED["C02"] = dict(
    technique="same symbolic executions as C01 (symx); oracle = independent model of the ROM acceptance checks over the "
              "exported symbolic bytes (bit-exact CRC-32/MPEG-2 model, argument capture for signature/HMAC/digest, "
              "format-only decryptor over the ideal-cipher stub) + z3 QF_BV",
    note="Decides ranges, lengths and placements only. Out of the claim: that RSA/ECDSA signatures and certificate chains "
         "verify (real cryptography), BCA/FCF/Vx classes, custom TrustZone in CRC-manifest classes.",
    ref="DESIGN.md section 3 C02")

CLAIMED["C17"] = dict(
    technique="symbolic execution of the real constructors under an RNG stub whose draws are solver variables tagged with "
              "the drawing phase (import / construction 1 / construction 2) + z3 QF_BV: non-determination by earlier draws "
              "(satisfiability query), equality to an own-phase draw up to documented masks (validity query)",
    note="Out of the claim: quality of secrets.token_bytes; histories longer than two constructions; 'across interpreter "
         "restarts' is decided as independence from import-phase draws; forked workers are decided with the process state "
         "reduced to the module-level objects of spsdk.crypto.rng (real os.fork in the concrete twin).",
    ref="DESIGN.md section 3 C17")

CLAIMED["C13"] = dict(
    technique="symbolic execution of the real OTFAD / IEE / BEE encryptors (addresses, ranges, keys, counters, image bytes "
              "symbolic) against a block-level model of the decryption hardware; AES-CTR keystream and AES-XTS block "
              "functions are native z3 uninterpreted functions (QF_UFBV congruence), key wrap an ideal invertible cipher, "
              "CRC a bit-exact BV circuit",
    note="Out of the claim: real AES; images longer than the bounds; alignments of the base inside its 1 KiB unit are "
         "enumerated case parameters (3 in quick, all 64 in thorough); IEE CTR counter overflow is a recorded finding.",
    ref="DESIGN.md section 3 C13")

CLAIMED["C14"] = dict(
    technique="symbolic execution of the real BootableImage / Segment / BinaryImage code over the real device database: "
              "application container lengths and init offsets (also a history of two settings) are solver variables in the "
              "layout cases, segment contents in the byte cases; z3 QF_BV decides offsets, non-overlap, gap pattern and "
              "parse(export) recovery",
    note="Out of the claim: the inside of MBI/HAB/AHAB/SB containers (replaced by one self-delimiting container model in "
         "both runs); FCB/XMCD content other than the default block; format ambiguities listed in the harness.",
    ref="DESIGN.md section 3 C14")

CLAIMED["C10"] = dict(
    technique="symbolic execution of the real mboot/SDP protocol code in two composed layers: (1) frame layer - the "
              "device-to-host byte stream / HID report is one arbitrary symbolic byte vector decoded by the real "
              "interface.read() and compared with a reference decoder (CRC-16/XMODEM as a BV circuit); (2) command "
              "layer - McuBoot / SDP operations over an arbitrary symbolic sequence of K frame-level events; z3 QF_BV "
              "decides wire encodings, exactness/completeness of returned data and that faults surface as documented "
              "exceptions",
    note="Out of the claim: drivers and timing, transfers above the bounds, histories of more than two operations, devices that break "
         "the protocol (not the link); one recorded finding (short read reported with SUCCESS when cmd_exception is off).",
    ref="DESIGN.md section 3 C10")

CLAIMED["C08"] = dict(
    technique="symbolic execution of SPSDK's own key / signature encoders, decoders and format sniffers with (r, s), "
              "coordinates, moduli and exponents as solver variables (z3 QF_BV) on top of fake library key objects and a "
              "strict DER model; sign / verify calls are decided as argument-plumbing obligations on the recorded library "
              "calls",
    note="Out of the claim: that the library's RSA/ECDSA signatures verify and forgeries do not, PEM/DER/PKCS8 "
         "serialisation, passwords and the PEM-or-DER sniffing of file contents (UTF-8 decoding of symbolic bytes; C/Rust "
         "code behind the cryptography API - not encodable; seeded change C08_4 lives there and is not detected); one recorded finding "
         "(length-based classification of ECDSA DER signatures).",
    ref="DESIGN.md section 3 C08")

CLAIMED["C12"] = dict(
    technique="symbolic execution of the real configuration-area classes over the real device database with every "
              "register of the area a solver variable (z3 QF_BV): fixed export size, register bytes at their offsets, "
              "parse(export) and configuration round trips as byte equalities, computed fields as bit-vector identities",
    note="Out of the claim: the template / JSON-schema clause of C12 (YAML and jsonschema text processing cannot be "
         "encoded - seeded change C12_1 lives there and is not detected), fuse maps, memcfg option words, seal with "
         "real keys (ROTKH from stub root keys is decided, assuming the hash does not begin with 128 zero bits); two recorded findings (IFR CMAC table register file).",
    ref="DESIGN.md section 3 C12")

CLAIMED["C06"] = dict(
    technique="symbolic execution of the real AHAB image / container / image-array-entry code (image bytes, addresses, "
              "flags, metadata, versions as solver variables; hash an uninterpreted function) compared with an independent "
              "reading of the exported bytes; parse(export) equality, own verifier verdicts and a corrupted image byte are "
              "decided by z3 QF_BV / QF_UFBV",
    note="Decided for unsigned containers and for containers signed with an ECDSA P-256 / P-384 SRK table (records carry "
         "the keys, table hash, signature of the selected key over exactly header + image array + block up to the signature, "
         "own verifier, modified authenticated bytes). NOT decided: soundness of the signature scheme itself (uninterpreted "
         "function symbolically, real key concretely), RSA / P-521 tables, certificates, key blobs, image decryption, "
         "container version 2.",
    ref="DESIGN.md section 3 C06")

CLAIMED["C07"] = dict(
    technique="symbolic execution of the real HAB container builder / parser on the repository's BD configurations with a "
              "partly symbolic application of chosen length; the exported bytes are re-read by an independent IVT / boot-data "
              "/ CSF command walker; AES-CCM is an ideal cipher with an uninterpreted tag function of (key, nonce, data, tag "
              "length), the CMS signer a recorder; z3 QF_BV / QF_UFBV decides pointer, length, coverage and decryption "
              "obligations",
    note="Decided: layout round trip, what the CSF signatures are computed over and that the listed blocks cover IVT, boot "
         "data, DCD and application, decrypt-data block / nonce / MAC parameters and that decryption restores the "
         "application. NOT decided: that the CMS signatures verify and chain to the SRK table (real X.509/CMS crypto), XMCD, "
         "parsing of encrypted images.",
    ref="DESIGN.md section 3 C07")

NOT_APPLICABLE = {
    "C18": "quantifies over OS-level crash points of a pickle file and over process schedules around a FileLock; the "
           "deciding code is pickle (C) / the file system / the scheduler - no SPSDK arithmetic or layout to encode; "
           "a solver model would be a hand abstraction, not the real code (DESIGN.md section 3 C18)",
}
PENDING = "check not built yet (work in progress this round; see DESIGN.md section 5.1 for the order of work)"


def main():
    props = [json.loads(l)["id"] for l in open(os.path.join(VERIF, "properties.jsonl"))]
    checks = []
    na = []
    for p in props:
        if p in CLAIMED and glob.glob(os.path.join(VERIF, "harness", f"{p.lower()}_*.py")):
            c = CLAIMED[p]
            checks.append({
                "property_id": p,
                "quick_cmd": f"./check {p} --tier quick",
                "thorough_cmd": f"./check {p} --tier thorough",
                "evidence_file": f"evidence/{p}.json",
                "replay_cmd_template": f"./check {p} --replay {{path}}",
                "engine": "symx",
                "level_claimed": {"category": "model_checking", "text": LEVEL_TEXT, "design_ref": c["ref"]},
                "level_note": NOTE_COMMON + c["note"],
                "technique": c["technique"],
            })
        else:
            na.append({"property_id": p, "reason": NOT_APPLICABLE.get(p, PENDING)})
    man = {
        "version": 1,
        "setup_cmd": "./setup.sh",
        "hooks": {
            "guard": "NXP_MCUXPRESSO_SPSDK_VERIF",
            "enable": "none needed: symx loads the unmodified sources from /repo through its own import hook; no "
                      "source commit uses the guard",
            "baseline_off_cmd": "cd /repo && /venv/bin/python -m pytest -ra -q -p no:cacheprovider --timeout=900 "
                                "--continue-on-collection-errors",
            "source_commits": [],
            "add_only": True,
        },
        "engines": [{
            "name": "symx", "path": "symx/",
            "serves_properties": [c["property_id"] for c in checks],
            "kind_free_text": "symbolic executor for Python (proxy objects + replacement builtins + AST rewrite at "
                              "import) over z3; path exploration by re-execution; fresh solver per query",
        }],
        "checks": checks,
        "not_applicable": na,
        "notes": "Exit codes: 0 held, 1 reproduced violation (VIOLATION line), 3 inconclusive (never a pass). "
                 "Known findings: known_findings.json.",
    }
    json.dump(man, open(os.path.join(VERIF, "MANIFEST.json"), "w"), indent=1)
    print("claimed:", [c["property_id"] for c in checks], "n/a:", len(na))


if __name__ == "__main__":
    main()

#!/usr/bin/env python3
"""Runs the repository's baseline suite (guard off - no hooks exist) and compares with BASELINE.json stable_pass."""
import json, subprocess, sys, tempfile, os, xml.etree.ElementTree as ET
out = tempfile.mktemp(suffix=".xml", dir="/var/tmp")
subprocess.run(["/venv/bin/python", "-m", "pytest", "-q", "-p", "no:cacheprovider", "--timeout=900",
                "--continue-on-collection-errors", "-n", sys.argv[1] if len(sys.argv) > 1 else "12",
                f"--junitxml={out}"], cwd="/repo", stdout=subprocess.DEVNULL, stderr=subprocess.DEVNULL)
passed = set()
for tc in ET.parse(out).getroot().iter("testcase"):
    if not any(ch.tag in ("failure", "error", "skipped") for ch in tc):
        passed.add(f"{tc.get('classname')}::{tc.get('name')}")
os.unlink(out)
sp = set(json.load(open("/root/.vp/BASELINE.json"))["stable_pass"])
missing = sorted(sp - passed)
print(f"stable_pass={len(sp)} passed_now={len(passed)} missing={len(missing)}")
for m in missing[:40]:
    print("  MISSING", m)
sys.exit(1 if missing else 0)

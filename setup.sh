#!/bin/sh
# Offline bootstrap of the overlay venv used by every check (idempotent).
set -e
cd "$(dirname "$0")"
if [ ! -x .venv/bin/python ] || ! .venv/bin/python -c "import z3, crosshair" 2>/dev/null; then
  rm -rf .venv
  /venv/bin/python -m venv .venv
  SP=$(.venv/bin/python -c "import sysconfig; print(sysconfig.get_paths()['purelib'])")
  printf '%s\n' "/venv/lib/python3.12/site-packages" > "$SP/zz_venv_overlay.pth"
  PIP_NO_INDEX=1 .venv/bin/python -m pip install -q --no-index --find-links /opt/veriftools/wheels z3-solver crosshair-tool >/dev/null
fi
.venv/bin/python -c "import z3, crosshair; print('symx venv ok: z3', z3.get_version_string())"
